"""C20 helpers: schema-side translator (schemas/*.json -> key forest), conversion tables from the
As... method registry, lock-step comparison of the two forests, Coq rendering, and the document
generator (minimal valid documents per key path, single/double unknown-key injections, rule
entries without action, wrong value types).

Forest JSON (both sides):
  {"root": node, "defs": {name: {"fields": [{"key", "node", ...}], "extra": node|None}}, "order": [names]}
  node = {"k":"obj","ref":name} | {"k":"seq","e":node} | {"k":"map","e":node} | {"k":"scalar","t":string|bool|int|float}
       | {"k":"any"} | {"k":"unknown","why":text}
Documents (python): ["map", [[key, doc], ...]] | ["seq", [doc, ...]] | ["str", s] | ["int"] | ["bool"] | ["null"]
"""
import itertools
import json

FILES = ["pipeline", "compiler_passes", "veneers"]
FILL = "\x00FILL"

# What the loaders do with the decoded root AFTER decoding (hand-written mirror of
# CompilerLoader.Load and VeneersLoader.load; validated by the correspondence):
ROOT_EACH = {"pipeline": [], "compiler_passes": [("passes", "AsCompilerPass")],
             "veneers": [("builders", "AsRewriteRule"), ("options", "AsRewriteRule")]}
ROOT_NONEMPTY = {"pipeline": [], "compiler_passes": [], "veneers": [["package"]]}
DECODER_OF = {"PipelineFromFile": "pipeline", "CompilerLoader.Load": "compiler_passes", "VeneersLoader.load": "veneers"}

# JSON-Schema keywords
SHAPE_KW = {"$ref", "type", "properties", "additionalProperties", "items"}
VALUE_KW = {"description", "title", "default", "examples", "required", "enum", "const", "format", "pattern",
            "minimum", "maximum", "exclusiveMinimum", "exclusiveMaximum", "minLength", "maxLength", "minItems",
            "maxItems", "uniqueItems", "multipleOf", "$comment", "deprecated", "readOnly", "writeOnly",
            "minProperties", "maxProperties", "$schema", "$id", "$defs", "definitions"}


# ------------------------------------------------------------------ schema side
def read_schema(doc):
    """schemas/<file>.json -> forest.  Keywords that bear on which KEYS are accepted and that this
    reader does not understand make the position `unknown` (never equal to anything)."""
    defs_src = doc.get("$defs", {})
    forest = {"defs": {}, "order": [], "value_keywords": {}, "unrecognised": []}

    def unknown(why):
        if why not in forest["unrecognised"]:
            forest["unrecognised"].append(why)
        return {"k": "unknown", "why": why}

    def note_keywords(s, where):
        for k in s:
            if k in VALUE_KW:
                forest["value_keywords"][k] = forest["value_keywords"].get(k, 0) + 1
        bad = [k for k in s if k not in SHAPE_KW and k not in VALUE_KW]
        return bad

    def obj(name, s):
        if name not in forest["defs"]:
            d = {"fields": [], "extra": None}
            forest["defs"][name] = d
            forest["order"].append(name)
            for k, sub in s.get("properties", {}).items():
                d["fields"].append({"key": k, "node": node(sub, name + "/" + k, 0)})
            ap = s.get("additionalProperties", True)
            if ap is False:
                d["extra"] = None
            elif ap is True:
                d["extra"] = {"k": "any"}
            else:
                d["extra"] = node(ap, name + "/*", 0)
        return {"k": "obj", "ref": name}

    def node(s, where, depth):
        if depth > 30:
            return unknown("%s: $ref chain too deep" % where)
        if s is True:
            return {"k": "any"}
        if s is False:
            return unknown("%s: schema `false`" % where)
        if not isinstance(s, dict):
            return unknown("%s: not a schema" % where)
        bad = note_keywords(s, where)
        if bad:
            return unknown("%s: keyword(s) %s not understood" % (where, ",".join(sorted(bad))))
        if "$ref" in s:
            ref = s["$ref"]
            if len([k for k in s if k in SHAPE_KW]) > 1:
                return unknown("%s: $ref with sibling keywords" % where)
            if not ref.startswith("#/$defs/") or ref[8:] not in defs_src:
                return unknown("%s: unresolvable $ref %s" % (where, ref))
            name = ref[8:]
            target = defs_src[name]
            if isinstance(target, dict) and "properties" in target:
                if note_keywords(target, name):
                    return unknown("%s: keyword(s) not understood" % name)
                if target.get("type") != "object":
                    return unknown("%s: properties without type object" % name)
                return obj(name, target)
            return node(target, name, depth + 1)   # named array / free-form object / scalar: inlined
        t = s.get("type")
        if t is None:
            if not [k for k in s if k in SHAPE_KW]:
                return {"k": "any"}
            return unknown("%s: no type" % where)
        if isinstance(t, list):
            return unknown("%s: type list" % where)
        if t == "object":
            if "items" in s:
                return unknown("%s: object with items" % where)
            if "properties" in s:
                return obj(where, s)
            ap = s.get("additionalProperties", True)
            if ap is False:
                return obj(where, s)
            if ap is True:
                return {"k": "map", "e": {"k": "any"}}
            return {"k": "map", "e": node(ap, where + "/*", depth + 1)}
        if "properties" in s or "additionalProperties" in s:
            return unknown("%s: properties on a non-object" % where)
        if t == "array":
            return {"k": "seq", "e": node(s.get("items", True), where + "[]", depth + 1)}
        if "items" in s:
            return unknown("%s: items on a non-array" % where)
        if t in ("string", "boolean", "integer", "number"):
            return {"k": "scalar", "t": {"string": "string", "boolean": "bool", "integer": "int", "number": "float"}[t]}
        return unknown("%s: type %s" % (where, t))

    top = {k: v for k, v in doc.items() if k not in ("$defs",)}
    forest["root"] = node(top, "<root>", 0)
    return forest


# ------------------------------------------------------------------ conversion tables
def short_name(go_type):
    return go_type.rsplit(".", 1)[1]


def build_conv(fname, forest, methods):
    """Conversion table of one loader forest: which checks the As... methods run on which struct.
    Returns (conv: {def: [constraint]}, union_sites: [(def, union struct)], notes)."""
    mtab = {(m["recv"], m["name"]): m for m in methods}
    conv = {}
    notes = []
    done = set()

    def in_yaml_pkg(defname):
        return forest["defs"][defname]["go_type"].startswith("github.com/grafana/cog/internal/yaml.")

    def key_of(defname, go_field):
        for f in forest["defs"][defname]["fields"]:
            if f["go_field"] == go_field:
                return f
        return None

    def find_owner(defname, prefix_owner, mname):
        """(owner struct short name, go-field prefix) of method mname as seen from struct prefix_owner
        flattened into defname: own method, else promoted from an inlined struct."""
        own, prefix = prefix_owner
        if (own, mname) in mtab:
            return own, prefix
        if prefix == "":
            for it in forest["defs"][defname].get("inline", []):
                if (short_name(it), mname) in mtab:
                    return short_name(it), short_name(it) + "."
        return None

    def apply(defname, owner, prefix, mname):
        tag = (defname, owner, prefix, mname)
        if tag in done:
            return
        done.add(tag)
        m = mtab[(owner, mname)]
        cs = conv.setdefault(defname, [])
        if m["kind"] == "union":
            keys = []
            for mem in m["members"]:
                f = key_of(defname, prefix + mem["field"])
                if f is None:
                    notes.append("%s.%s dispatches on %s which yaml never fills" % (owner, mname, mem["field"]))
                    continue
                keys.append(f["key"])
                for call in mem["calls"]:
                    descend(f, call)
            cs.append(("union", keys, bool(m["empty_rejected"])))
            return
        for group in m["nonempty"]:
            ks = [key_of(defname, prefix + g) for g in group]
            if all(k is not None for k in ks):
                cs.append(("nonempty", [k["key"] for k in ks]))
        for call in m["self_calls"]:
            o = find_owner(defname, (owner, prefix), call)
            if o is None:
                notes.append("%s.%s calls %s which is not an As... method of internal/yaml" % (owner, mname, call))
                continue
            apply(defname, o[0], o[1], call)
        for fc in m["field_calls"]:
            f = key_of(defname, prefix + fc["field"])
            if f is None:
                continue
            # conversion of a member outside an if-chain: applies when the member is set
            cs.append(("union", [f["key"]], False))
            for call in fc["calls"]:
                descend(f, call)

    def descend(field, mname):
        n = field["node"]
        if n["k"] != "obj" or not in_yaml_pkg(n["ref"]):
            return
        child = n["ref"]
        o = find_owner(child, (short_name(forest["defs"][child]["go_type"]), ""), mname)
        if o is None:
            notes.append("%s has no method %s" % (child, mname))
            return
        apply(child, o[0], o[1], mname)

    root = forest["root"]["ref"]
    rcs = conv.setdefault(root, [])
    for group in ROOT_NONEMPTY[fname]:
        rcs.append(("nonempty", group))
    rule_sites = []
    for key, mname in ROOT_EACH[fname]:
        f = next((x for x in forest["defs"][root]["fields"] if x["key"] == key), None)
        if f is None or f["node"]["k"] != "seq" or f["node"]["e"]["k"] != "obj":
            notes.append("root key %s is not a sequence of structs any more" % key)
            continue
        rcs.append(("each", key))
        rule_sites.append(f["node"]["e"]["ref"])
        descend({"node": f["node"]["e"]}, mname)

    # every struct that IS a union struct or flattens one (independent of what calls what)
    unions = {m["recv"]: m for m in methods if m["kind"] == "union"}
    sites = []
    for name in forest["order"]:
        d = forest["defs"][name]
        if not d["go_type"].startswith("github.com/grafana/cog/internal/yaml."):
            continue
        if short_name(d["go_type"]) in unions:
            sites.append((name, short_name(d["go_type"])))
        for it in d.get("inline", []):
            if short_name(it) in unions and it.startswith("github.com/grafana/cog/internal/yaml."):
                sites.append((name, short_name(it)))
    conv = {k: v for k, v in conv.items() if v}
    return conv, sites, rule_sites, notes


def registry(files, methods):
    """One entry per union method: declared = keys of all nil-able members of the struct."""
    out = []
    for m in methods:
        if m["kind"] != "union":
            continue
        declared, dispatched = None, None
        for fname in FILES:
            forest = files[fname]
            for name in forest["order"]:
                d = forest["defs"][name]
                if d["go_type"] == "github.com/grafana/cog/internal/yaml." + m["recv"]:
                    declared = [f["key"] for f in d["fields"] if f["nilable"] and "." not in f["go_field"]]
                    by_go = {f["go_field"]: f["key"] for f in d["fields"]}
                    dispatched = [by_go.get(mem["field"], "<go field %s>" % mem["field"]) for mem in m["members"]]
        if declared is None:
            continue   # union struct that no loader root reaches
        out.append({"struct": m["recv"], "method": m["name"], "declared": declared, "dispatched": dispatched,
                    "empty_rejected": bool(m["empty_rejected"])})
    return out


# ------------------------------------------------------------------ lock-step comparison
def compare(loader, schema):
    """Walk both forests together from the roots. Returns (rel, key_diffs, type_notes)."""
    rel, diffs, types = [], [], []
    seen = set()

    def shape(n):
        return n["k"] + (":" + n["why"] if n["k"] == "unknown" else "")

    def walk(a, b, path):
        if a["k"] == "obj" and b["k"] == "obj":
            pair = (a["ref"], b["ref"])
            if pair in seen:
                return
            seen.add(pair)
            rel.append(pair)
            da, db = loader["defs"][a["ref"]], schema["defs"][b["ref"]]
            ka = {f["key"]: f["node"] for f in da["fields"]}
            kb = {f["key"]: f["node"] for f in db["fields"]}
            only_a = [k for k in ka if k not in kb]
            only_b = [k for k in kb if k not in ka]
            if only_a or only_b:
                diffs.append({"path": path or "<root>", "loader_struct": a["ref"], "schema_def": b["ref"],
                              "only_loader_accepts": only_a, "only_schema_accepts": only_b})
            for k in ka:
                if k in kb:
                    walk(ka[k], kb[k], path + "." + k if path else k)
            ea, eb = da["extra"], db["extra"]
            if (ea is None) != (eb is None):
                diffs.append({"path": path or "<root>", "loader_struct": a["ref"], "schema_def": b["ref"],
                              "loader_other_keys": "refused" if ea is None else "accepted",
                              "schema_other_keys": "refused" if eb is None else "accepted"})
            elif ea is not None:
                walk(ea, eb, path + ".*")
            return
        if a["k"] == b["k"] and a["k"] in ("seq", "map"):
            walk(a["e"], b["e"], path + ("[]" if a["k"] == "seq" else "{}"))
            return
        if a["k"] == b["k"] == "scalar":
            if a["t"] != b["t"]:
                types.append({"path": path, "loader": a["t"], "schema": b["t"]})
            return
        if a["k"] == b["k"] == "any":
            return
        diffs.append({"path": path or "<root>", "loader_shape": shape(a), "schema_shape": shape(b)})

    walk(loader["root"], schema["root"], "")
    return rel, diffs, types


# ------------------------------------------------------------------ Coq rendering
def q(s):
    return '"' + s.replace('"', '""') + '"'


def g_node(n):
    k = n["k"]
    if k == "obj":
        return "NObj %s" % q(n["ref"])
    if k in ("seq", "map"):
        return "N%s (%s)" % (k.capitalize(), g_node(n["e"]))
    if k == "scalar":
        return "NScalar K%s" % n["t"].capitalize()
    if k == "any":
        return "NAny"
    return "NUnknown %s" % q(n["why"])


def g_list(items, sep="; "):
    return "[" + sep.join(items) + "]"


def g_defs(forest):
    out = []
    for name in forest["order"]:
        d = forest["defs"][name]
        fields = g_list(["(%s, %s)" % (q(f["key"]), g_node(f["node"])) for f in d["fields"]])
        extra = "None" if d["extra"] is None else "Some (%s)" % g_node(d["extra"])
        out.append("  (%s, {| o_fields := %s; o_extra := %s |})" % (q(name), fields, extra))
    return "[\n" + ";\n".join(out) + "]"


def g_constr(c):
    if c[0] == "union":
        return "CUnion %s %s" % (g_list([q(k) for k in c[1]]), "true" if c[2] else "false")
    if c[0] == "nonempty":
        return "CNonEmpty %s" % g_list([q(k) for k in c[1]])
    return "CEach %s" % q(c[1])


def g_conv(conv):
    return g_list(["(%s, %s)" % (q(name), g_list([g_constr(c) for c in cs])) for name, cs in sorted(conv.items())],
                  ";\n   ")


def g_doc(d):
    t = d[0]
    if t == "map":
        return "DMap [" + "; ".join("(%s, %s)" % (q(k), g_doc(v)) for k, v in d[1]) + "]"
    if t == "seq":
        return "DSeq [" + "; ".join(g_doc(v) for v in d[1]) + "]"
    if t == "str":
        return "DScalar (SStr %s)" % q(d[1])
    return "DScalar S%s" % t.capitalize()


def doc_text(d):
    """JSON text (a YAML flow document); duplicate keys are representable."""
    t = d[0]
    if t == "map":
        return "{" + ", ".join("%s: %s" % (json.dumps(k), doc_text(v)) for k, v in d[1]) + "}"
    if t == "seq":
        return "[" + ", ".join(doc_text(v) for v in d[1]) + "]"
    if t == "str":
        return json.dumps(d[1])
    return {"int": "1", "bool": "true", "null": "null"}[t]


def has_dup(d):
    if d[0] == "map":
        ks = [k for k, _ in d[1]]
        return len(set(ks)) != len(ks) or any(has_dup(v) for _, v in d[1])
    if d[0] == "seq":
        return any(has_dup(v) for v in d[1])
    return False


def subst_fill(d, filler):
    t = d[0]
    if t == "map":
        return ["map", [[filler if k == FILL else k, subst_fill(v, filler)] for k, v in d[1]]]
    if t == "seq":
        return ["seq", [subst_fill(v, filler) for v in d[1]]]
    if t == "str" and d[1] == FILL:
        return ["str", filler]
    return d


def count_fill(d):
    t = d[0]
    if t == "map":
        return sum((1 if k == FILL else 0) + count_fill(v) for k, v in d[1])
    if t == "seq":
        return sum(count_fill(v) for v in d[1])
    return 1 if t == "str" and d[1] == FILL else 0


def subst_fill_each(d, fillers):
    """fillers: iterator consumed left to right, one per placeholder"""
    t = d[0]
    if t == "map":
        out = []
        for k, v in d[1]:
            k2 = next(fillers) if k == FILL else k
            out.append([k2, subst_fill_each(v, fillers)])
        return ["map", out]
    if t == "seq":
        return ["seq", [subst_fill_each(v, fillers) for v in d[1]]]
    if t == "str" and d[1] == FILL:
        return ["str", next(fillers)]
    return d


# ------------------------------------------------------------------ document generator
class DocGen:
    def __init__(self, forest, conv, declared=None):
        self.F = forest
        self.conv = conv
        # struct -> yaml keys of every nil-able member its union struct DECLARES (dispatched or not): a
        # declared member on the path counts as the entry's action, so nothing else is added next to it
        self.declared = declared or {}

    def field(self, defname, key):
        for f in self.F["defs"][defname]["fields"]:
            if f["key"] == key:
                return f
        return None

    @staticmethod
    def is_null(d):
        return d[0] == "null"

    def complete(self, defname, entries, depth):
        """add what the conversion of struct defname needs (first union member, non-empty key)"""
        for c in self.conv.get(defname, []):
            if c[0] == "union" and c[2]:
                members = set(c[1]) | set(self.declared.get(defname, []))
                if not any(k in members and not self.is_null(v) for k, v in entries):
                    f = self.field(defname, c[1][0])
                    entries.append([c[1][0], self.minval(f["node"], depth + 1)])
            elif c[0] == "nonempty":
                if not any(k in c[1] and v[0] == "str" for k, v in entries):
                    entries.append([c[1][0], ["str", FILL]])
        # plain (non-pointer) string members are given a value: several conversions parse them
        # (object / field references) and refuse the empty string an absent key leaves behind
        present = {k for k, _ in entries}
        for f in self.F["defs"][defname]["fields"]:
            if f["key"] not in present and not f.get("nilable", False) and f["node"] == {"k": "scalar", "t": "string"}:
                entries.append([f["key"], ["str", FILL]])
        return entries

    def minval(self, n, depth=0, rich=False):
        k = n["k"]
        if k == "obj":
            return ["map", self.complete(n["ref"], [], depth)]
        if k == "seq":
            return ["seq", [self.minval(n["e"], depth + 1)] if depth < 12 else []]
        if k == "map":
            return ["map", [[FILL, self.minval(n["e"], depth + 1)]]]
        if k == "scalar":
            return {"string": ["str", FILL], "bool": ["bool"], "int": ["int"], "float": ["int"]}[n["t"]]
        return ["str", FILL]

    def key_paths(self, max_rep=1, limit=200000):
        """every key path of the forest: sequences of steps ('key',k) / ('elem',) / ('val',) from the root to a
        declared key, no struct entered more than max_rep times on one path"""
        out = []

        def walk(n, steps, stack):
            if len(out) >= limit:
                return
            k = n["k"]
            if k == "obj":
                if stack.count(n["ref"]) >= max_rep:
                    return
                for f in self.F["defs"][n["ref"]]["fields"]:
                    p = steps + [("key", f["key"])]
                    out.append(p)
                    walk(f["node"], p, stack + [n["ref"]])
            elif k == "seq":
                walk(n["e"], steps + [("elem",)], stack)
            elif k == "map":
                walk(n["e"], steps + [("val",)], stack)

        walk(self.F["root"], [], [])
        return out

    def build(self, steps, leaf=None):
        """minimal valid document exercising the key path; leaf (optional) replaces the value under the last key"""
        def go(n, i, depth):
            if i == len(steps):
                return leaf if leaf is not None else self.minval(n, depth)
            st = steps[i]
            k = n["k"]
            if st[0] == "key":
                assert k == "obj"
                f = self.field(n["ref"], st[1])
                entries = [[st[1], go(f["node"], i + 1, depth + 1)]]
                return ["map", self.complete(n["ref"], entries, depth)]
            if st[0] == "elem":
                return ["seq", [go(n["e"], i + 1, depth + 1)]]
            return ["map", [[FILL, go(n["e"], i + 1, depth + 1)]]]
        return go(self.F["root"], 0, 0)

    def node_at_steps(self, steps):
        n = self.F["root"]
        for st in steps:
            if st[0] == "key":
                n = self.field(n["ref"], st[1])["node"]
            else:
                n = n["e"]
        return n

    # -- walking a document together with the forest
    def mapping_nodes(self, d):
        """[(index path, struct name or None, strict?)] for every mapping of d; strict = reached through declared
        keys and sequence elements only and decoded into a struct without extra keys"""
        out = []

        def go(n, d, p, strict):
            if d[0] == "map":
                if n is not None and n["k"] == "obj":
                    defn = self.F["defs"][n["ref"]]
                    out.append((p, n["ref"], strict and defn["extra"] is None, strict))
                    for i, (k, v) in enumerate(d[1]):
                        f = self.field(n["ref"], k)
                        if f is not None:
                            go(f["node"], v, p + [i], strict)
                        else:
                            go(defn["extra"], v, p + [i], False)
                else:
                    out.append((p, None, False, False))
                    for i, (k, v) in enumerate(d[1]):
                        go(n["e"] if n is not None and n["k"] == "map" else None, v, p + [i], False)
            elif d[0] == "seq":
                for i, v in enumerate(d[1]):
                    go(n["e"] if n is not None and n["k"] == "seq" else None, v, p + [i],
                       strict and n is not None and n["k"] == "seq")
        go(self.F["root"], d, [], True)
        return out


def inject(d, p, k, v):
    if not p:
        if d[0] == "map":
            return ["map", [list(e) for e in d[1]] + [[k, v]]]
        return d
    i, rest = p[0], p[1:]
    if d[0] == "map":
        return ["map", [[kk, inject(vv, rest, k, v) if j == i else vv] for j, (kk, vv) in enumerate(d[1])]]
    if d[0] == "seq":
        return ["seq", [inject(vv, rest, k, v) if j == i else vv for j, vv in enumerate(d[1])]]
    return d


def steps_text(steps):
    s = ""
    for st in steps:
        if st[0] == "key":
            s += ("." if s else "") + st[1]
        elif st[0] == "elem":
            s += "[]"
        else:
            s += "{}"
    return s


def depth_of(p):
    return len(p)


def to_plain(d):
    """python value for json.dumps / jsonschema (no duplicate keys)"""
    t = d[0]
    if t == "map":
        return {k: to_plain(v) for k, v in d[1]}
    if t == "seq":
        return [to_plain(v) for v in d[1]]
    if t == "str":
        return d[1]
    return {"int": 1, "bool": True, "null": None}[t]


def filler_variants(d, fillers=("a", "a.b", "a.b.c")):
    """candidate instantiations of the string placeholders: uniform first, then (few placeholders) mixed"""
    out = [subst_fill(d, f) for f in fillers]
    n = count_fill(d)
    if 2 <= n <= 4:
        for combo in itertools.product(fillers, repeat=n):
            if len(set(combo)) > 1:
                out.append(subst_fill_each(d, iter(combo)))
    return out


# ------------------------------------------------------------------ whole translation + Gen file
def translate(keys, schema_docs):
    """keys: output of `verifh_c20 keys`; schema_docs: {file: parsed schemas/<file>.json or None}"""
    T = {"files": {}, "methods": keys["methods"], "decoders": keys["decoders"]}
    for fname in FILES:
        L = keys["files"][fname]
        sd = schema_docs.get(fname)
        if sd is None:
            S = {"root": {"k": "unknown", "why": "schemas/%s.json missing or unreadable" % fname}, "defs": {}, "order": [],
                 "value_keywords": {}, "unrecognised": ["schemas/%s.json missing or unreadable" % fname]}
        else:
            S = read_schema(sd)
        rel, diffs, types = compare(L, S)
        conv, sites, rule_sites, notes = build_conv(fname, L, keys["methods"])
        mine = [d for d in keys["decoders"] if DECODER_OF.get(d["func"]) == fname]
        if not mine:   # refactored: every decoder of the loader packages counts
            mine = list(keys["decoders"])
        T["files"][fname] = {"loader": L, "schema": S, "rel": rel, "key_diffs": diffs, "type_notes": types,
                             "conv": conv, "union_sites": sites, "rule_sites": rule_sites, "conv_notes": notes,
                             "decoders": mine}
    T["registry"] = registry(keys["files"], keys["methods"])
    # regenerated non-vacuity example: the deepest key path of the compiler-passes language
    ex = None
    for fi, fname in enumerate(FILES):
        F = T["files"][fname]
        g = DocGen(F["loader"], F["conv"], declared_members(T, fname))
        try:
            paths = g.key_paths(1)
        except Exception:
            paths = []
        for p in paths:
            d = subst_fill(g.build(p), "a.b")
            strict = [m for m in g.mapping_nodes(d) if m[2]]
            if not strict:
                continue
            m = max(strict, key=lambda m: len(m[0]))
            if ex is None or len(m[0]) > len(ex["path"]) or (len(m[0]) == len(ex["path"]) and fname == "compiler_passes" and ex["file"] != 1):
                ex = {"file": fi, "doc": d, "path": m[0], "steps": steps_text(p)}
    T["example"] = ex
    return T


def render_gen(T):
    L = ["(* GENERATED on every run by checks/c20.py (harness/verifh_c20 `keys` + schemas/*.json) -- do not edit.",
         "   loader side: reflection over codegen.Pipeline / yaml.Compiler / yaml.Veneers with yaml.v3 naming rules,",
         "   go/parser over the As... methods and the yaml decoders; schema side: the published JSON Schemas. *)",
         "From Cog Require Import Model.Config.", "Local Open Scope string_scope.", ""]
    for fname in FILES:
        F = T["files"][fname]
        L.append("(* ---- %s ---- *)" % fname)
        L.append("Definition %s_decoders : list decoder_site := %s." % (fname, g_list(
            ["{| d_file := %s; d_func := %s; d_call := %s; d_known_fields := %s |}" %
             (q(d["file"]), q(d["func"]), q(d["call"]), "true" if d["known_fields"] else "false") for d in F["decoders"]], ";\n   ")))
        L.append("Definition %s_loader_defs : defs_t := %s." % (fname, g_defs(F["loader"])))
        L.append("Definition %s_conv : conv_t := %s." % (fname, g_conv(F["conv"])))
        L.append("Definition %s_loader : forest := {| f_root := %s; f_defs := %s_loader_defs; f_conv := %s_conv; "
                 "f_known_fields := strict_decoders %s_decoders |}." % (fname, g_node(F["loader"]["root"]), fname, fname, fname))
        L.append("Definition %s_schema_defs : defs_t := %s." % (fname, g_defs(F["schema"])))
        L.append("Definition %s_schema : forest := {| f_root := %s; f_defs := %s_schema_defs; f_conv := []; "
                 "f_known_fields := true |}." % (fname, g_node(F["schema"]["root"]), fname))
        L.append("Definition %s_rel : rel_t := %s." % (fname, g_list(["(%s, %s)" % (q(a), q(b)) for a, b in F["rel"]], ";\n   ")))
        L.append("")
    L.append("Definition loaders : list forest := %s." % g_list(["%s_loader" % f for f in FILES]))
    L.append("Definition schemas : list forest := %s." % g_list(["%s_schema" % f for f in FILES]))
    L.append("Definition rels : list rel_t := %s." % g_list(["%s_rel" % f for f in FILES]))
    L.append("")
    L.append("Definition registry : list union := %s." % g_list(
        ["{| u_struct := %s; u_method := %s;\n     u_declared := %s;\n     u_dispatched := %s;\n     u_empty_rejected := %s |}" %
         (q(u["struct"]), q(u["method"]), g_list([q(k) for k in u["declared"]]), g_list([q(k) for k in u["dispatched"]]),
          "true" if u["empty_rejected"] else "false") for u in T["registry"]], ";\n  "))
    sites, rsites = [], []
    for fi, fname in enumerate(FILES):
        F = T["files"][fname]
        sites += ["(%d, (%s, %s))" % (fi, q(d), q(u)) for d, u in F["union_sites"]]
        root = F["loader"]["root"]
        for key, _ in ROOT_EACH[fname]:
            f = next((x for x in F["loader"]["defs"].get(root.get("ref"), {"fields": []})["fields"] if x["key"] == key), None)
            e = f["node"]["e"]["ref"] if f and f["node"]["k"] == "seq" and f["node"]["e"]["k"] == "obj" else "<%s is not a sequence of structs>" % key
            rsites.append("(%d, (%s, %s))" % (fi, q(key), q(e)))
    L.append("(* every struct that is, or flattens, a union struct: (file, struct, union struct) *)")
    L.append("Definition union_sites : list (nat * (string * string)) := %s." % g_list(sites, ";\n   "))
    L.append("(* (file, root key, element struct): the rule lists the loaders convert entry by entry *)")
    L.append("Definition rule_sites : list (nat * (string * string)) := %s." % g_list(rsites))
    L.append("Definition opaque_types : list string := %s." % g_list(
        [q(o) for f in FILES for o in T["files"][f]["loader"]["opaque"]]))
    L.append("Definition schema_unrecognised : list string := %s." % g_list(
        [q(o) for f in FILES for o in T["files"][f]["schema"]["unrecognised"]]))
    ex = T["example"]
    L.append("")
    L.append("(* regenerated non-vacuity example: a valid document reaching the deepest language position *)")
    if ex is None:
        L.append("Definition example_file : nat := 0.\nDefinition example_doc : doc := DScalar SNull.\nDefinition example_path : path := [].")
    else:
        L.append("Definition example_file : nat := %d.  (* %s *)" % (ex["file"], ex["steps"]))
        L.append("Definition example_doc : doc := %s." % g_doc(ex["doc"]))
        L.append("Definition example_path : path := %s." % g_list([str(i) for i in ex["path"]]))
    return "\n".join(L) + "\n"


def declared_members(T, fname):
    """struct -> keys its union struct declares as nil-able members (through `,inline` too)"""
    reg = {u["struct"]: u for u in T["registry"]}
    out = {}
    for defname, ustruct in T["files"][fname]["union_sites"]:
        if ustruct in reg:
            out.setdefault(defname, [])
            out[defname] += reg[ustruct]["declared"]
    return out


def free_form_positions(forest):
    """(struct, key, shape) of every declared key under which anything goes"""
    out = []
    for name in forest["order"]:
        for f in forest["defs"][name]["fields"]:
            n = f["node"]
            while n["k"] == "seq":
                n = n["e"]
            if n["k"] in ("map", "any", "unknown"):
                out.append("%s.%s (%s)" % (name, f["key"], "any" if n["k"] == "any" else
                                             "unknown" if n["k"] == "unknown" else "map of " + n["e"]["k"]))
    return out
