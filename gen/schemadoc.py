"""Random documents driven by a JSON Schema (used to generate cog's YAML configuration
documents from the schemas cog itself publishes: schemas/compiler_passes.json, veneers.json).
Handles $ref/$defs, properties, additionalProperties, items, type, enum; `true` schemas."""


class DocGen:
    def __init__(self, schema, rng, strings, max_depth=6, union_defs=()):
        self.schema = schema
        self.defs = schema.get("$defs", {})
        self.rng = rng
        self.strings = strings
        self.max_depth = max_depth
        self.union_defs = set(union_defs)

    def resolve(self, s):
        while isinstance(s, dict) and "$ref" in s:
            s = self.defs[s["$ref"].split("/")[-1]]
        return s

    def string(self, key=None):
        r = self.rng
        pool = self.strings.get(key) or self.strings.get("*") or ["x"]
        c = r.random()
        if c < 0.85:
            return r.choice(pool)
        if c < 0.9:
            return ""
        if c < 0.95:
            return r.choice(pool).upper()
        return r.choice(["a.b.c.d", ".", "..", "x y", "%l", "0", "-1", "é"])

    def value_any(self, depth):
        r = self.rng
        c = r.random()
        if c < 0.3:
            return self.string()
        if c < 0.5:
            return r.randint(-2, 100)
        if c < 0.6:
            return r.random() < 0.5
        if c < 0.7:
            return 1.5
        if c < 0.8 or depth > 2:
            return None
        if c < 0.9:
            return [self.value_any(depth + 1) for _ in range(r.randint(0, 2))]
        return {self.string(): self.value_any(depth + 1) for _ in range(r.randint(0, 2))}

    def gen(self, s=None, depth=0, key=None, defname=None):
        r = self.rng
        if s is None:
            s = self.schema
        if s is True or s == {}:
            return self.value_any(depth)
        if "$ref" in s:
            defname = s["$ref"].split("/")[-1]
            s = self.resolve(s)
        t = s.get("type")
        if "enum" in s:
            return r.choice(s["enum"])
        if t == "object" or "properties" in s:
            props = s.get("properties", {})
            out = {}
            names = list(props)
            if depth >= self.max_depth:
                return {}
            if defname in self.union_defs and names:
                c = r.random()
                k = 1 if c < 0.9 else (0 if c < 0.95 else 2)
                chosen = r.sample(names, min(k, len(names)))
            else:
                chosen = [n for n in names if r.random() < (0.75 if depth < 3 else 0.4)]
            for n in chosen:
                out[n] = self.gen(props[n], depth + 1, key=n)
            ap = s.get("additionalProperties")
            if isinstance(ap, dict) and ap and r.random() < 0.7:
                for _ in range(r.randint(1, 2)):
                    out[self.string(key)] = self.gen(ap, depth + 1, key=key)
            elif ap is True and r.random() < 0.5:
                out[self.string(key)] = self.value_any(depth + 1)
            return out
        if t == "array":
            if depth >= self.max_depth:
                return []
            return [self.gen(s.get("items", True), depth + 1, key=key) for _ in range(r.choice([0, 1, 1, 2, 3]))]
        if t == "string":
            return self.string(key)
        if t == "integer":
            return r.choice([0, 1, 2, 3, -1, 7, 100])
        if t == "number":
            return r.choice([0, 1.5, -2])
        if t == "boolean":
            return r.random() < 0.5
        return self.value_any(depth)
