"""Generator of C17 cases: schema sets on which FromAST succeeds x veneer rule files
(builder rules, option rules, selectors exact / different case / absent, parameters valid and
borderline), in the job format of harness/verifh_ven/veneers.go, plus the same files rendered
as YAML for the real veneers loader.  Every random choice comes from the `rng` passed in."""
import copy
import json

from gen import irgen

S = lambda k, **kw: dict({"k": "scalar", "sk": k}, **kw)
dstr = irgen.dstr


def dint(i):
    return {"t": "int", "v": i}      # what yaml.v3 decodes an integer to


def dbool(b):
    return {"t": "bool", "v": b}


PKGS = ["alpha", "beta", "gamma"]
OBJ_NAMES = ["Foo", "Bar", "Options", "FieldConfig", "Panel", "Spec", "spec", "Item", "Query", "Legend"]
FIELD_NAMES = ["id", "name", "type", "kind", "tags", "items", "labels", "enabled", "legend", "options", "value",
               "refs", "choice", "extra", "Name", "time", "mode"]
BUILDER_NAMES = ["Renamed", "Copy", "PanelBuilder", "foo"]
OPTION_NAMES = ["withTag", "renamed", "on", "off", "copyOf", "X"]
VARIANTS = ["panelcfg", "dataquery"]


# ---------------------------------------------------------------- schemas
class SchemaGen:
    def __init__(self, rng):
        self.rng = rng
        self.structs = []       # (pkg, name) of struct objects
        self.disjstructs = []   # (pkg, name) of structs generated from a disjunction

    def scalar(self):
        r = self.rng
        k = r.choice(["string", "string", "int64", "bool", "float64", "uint8", "any"])
        t = S(k)
        c = r.random()
        if c < 0.12 and k in ("string", "int64", "uint8"):
            t["cs"] = [{"op": "minLength" if k == "string" else ">=", "args": [irgen.dint(r.randint(0, 5), "int64")]}]
        if c > 0.85:
            t["def"] = {"string": dstr("dflt"), "int64": irgen.dint(3), "bool": dbool(r.random() < 0.5),
                        "float64": irgen.dfloat("1.5"), "uint8": irgen.dint(1, "uint8"), "any": dstr("x")}[k]
        if r.random() < 0.1:
            t["null"] = True
        return t

    def ref(self, pool=None):
        pool = pool or self.structs
        if not pool:
            return S("string")
        p, n = self.rng.choice(pool)
        t = {"k": "ref", "pkg": p, "name": n}
        if self.rng.random() < 0.15:
            t["null"] = True
        return t

    def field_type(self, depth=0):
        r = self.rng
        c = r.random()
        if c < 0.24:
            return self.scalar()
        if c < 0.32:
            return S("bool", **({"def": dbool(r.random() < 0.5)} if r.random() < 0.4 else {}))
        if c < 0.44:
            return {"k": "array", "v": self.ref() if r.random() < 0.4 else S(r.choice(["string", "int64"]))}
        if c < 0.54:
            return {"k": "map", "i": S("string"), "v": self.ref() if r.random() < 0.4 else S(r.choice(["string", "bool"]))}
        if c < 0.68:
            t = self.ref()
            if t["k"] == "ref" and r.random() < 0.3:
                t["def"] = {"t": "map", "v": {k: v for k, v in (("id", irgen.dint(7)), ("name", dstr("n")), ("enabled", dbool(True)))
                                              if r.random() < 0.7}}
            return t
        if c < 0.74 and depth < 2:
            names = r.sample(FIELD_NAMES, r.randint(1, 3))
            t = {"k": "struct", "fields": [{"name": n, "type": self.field_type(depth + 1), "req": r.random() < 0.6} for n in names]}
            if r.random() < 0.3:
                t["def"] = {"t": "map", "v": {names[0]: dstr("d")}}
            return t
        if c < 0.82:
            if r.random() < 0.5:
                br = [S(k) for k in r.sample(["string", "int64", "bool", "float64"], r.randint(2, 3))]
            else:
                br = [self.ref() for _ in range(r.randint(2, 3))]
            if r.random() < 0.2:
                br[0] = dict(br[0], **{"def": dstr("bd")})
            return {"k": "disj", "branches": br}
        if c < 0.88:
            return self.ref(self.disjstructs) if self.disjstructs else self.ref()
        if c < 0.92:
            return S("string", val=dstr(r.choice(["const", "k"])))            # constant
        if c < 0.95:
            return S("any")
        if c < 0.97:
            return {"k": "enum", "values": [{"type": S("string"), "name": n, "val": dstr(n)} for n in ("a", "b")]}
        return {"k": "array", "v": {"k": "array", "v": S("string")}}

    def struct(self, nmin=1, nmax=5):
        r = self.rng
        names = r.sample(FIELD_NAMES, r.randint(nmin, nmax))
        fields = []
        for n in names:
            f = {"name": n, "type": self.field_type(), "req": r.random() < 0.6}
            if r.random() < 0.2:
                f["comments"] = [r.choice(irgen.COMMENTS) for _ in range(r.randint(1, 3))]
            fields.append(f)
        return {"k": "struct", "fields": fields}

    def disj_struct(self):
        r = self.rng
        if r.random() < 0.5:
            kinds = r.sample(["string", "int64", "bool", "float64"], r.randint(2, 3))
            fields = [{"name": k.capitalize(), "type": dict(S(k), null=True), "req": False} for k in kinds]
            dh = {"disjunction_of_scalars": {"k": "disj", "branches": [S(k) for k in kinds]}}
        else:
            refs = [self.ref() for _ in range(r.randint(2, 3))]
            refs = [x for x in refs if x["k"] == "ref"] or [S("string")]
            fields = [{"name": x.get("name", "Str") + str(i), "type": dict(x, null=True), "req": False} for i, x in enumerate(refs)]
            dh = {"disjunction_of_refs": {"k": "disj", "branches": refs, "disc": "kind", "mapping": {"a": "A"}}}
        if r.random() < 0.25:
            fields[0]["type"] = dict(fields[0]["type"], **{"def": dstr("fd")})
        return {"k": "struct", "fields": fields, "dh": dh}

    def schemas(self):
        r = self.rng
        pkgs = r.sample(PKGS, r.choice([1, 1, 2, 2, 3]))
        plan = [(p, r.sample(OBJ_NAMES, r.randint(1, 4))) for p in pkgs]
        # which objects are structs is fixed first so that references can point forward
        kinds = {}
        for p, names in plan:
            for n in names:
                c = r.random()
                kinds[(p, n)] = "struct" if c < 0.66 else "disjstruct" if c < 0.78 else "alias" if c < 0.88 else "other"
        self.structs = [k for k, v in kinds.items() if v == "struct"]
        self.disjstructs = [k for k, v in kinds.items() if v == "disjstruct"]
        out = []
        for p, names in plan:
            objs = []
            for n in names:
                kd = kinds[(p, n)]
                if kd == "struct":
                    t = self.struct()
                elif kd == "disjstruct":
                    t = self.disj_struct()
                elif kd == "alias":
                    pool = self.structs + self.disjstructs
                    t = {"k": "ref", "pkg": pool[0][0], "name": pool[0][1]} if pool and r.random() < 0.9 else S("string")
                    if pool and r.random() < 0.7:
                        q = r.choice(pool)
                        t = {"k": "ref", "pkg": q[0], "name": q[1]}
                else:
                    t = r.choice([S("string"), {"k": "enum", "values": [{"type": S("string"), "name": "a", "val": dstr("a")}]},
                                  {"k": "array", "v": S("string")}, {"k": "disj", "branches": [S("string"), S("int64")]}])
                o = {"name": n, "type": t}
                if r.random() < 0.2:
                    o["comments"] = [r.choice(irgen.COMMENTS)]
                objs.append(o)
            s = {"pkg": p, "meta": {}, "entry": "", "objects": objs}
            if r.random() < 0.45:
                s["meta"] = {"kind": r.choice(["composable", "composable", "core"]), "variant": r.choice(VARIANTS + [""]),
                             "id": r.choice(["timeseries", "table", "table", ""])}
            if r.random() < 0.35:
                ep = r.choice(names)
                s["entry"] = ep
                s["entrytype"] = {"k": "ref", "pkg": p, "name": ep}
                if r.random() < 0.2:
                    s["entrytype"] = {"k": "disj", "branches": [S("string"), {"k": "ref", "pkg": p, "name": ep}]}
            out.append(s)
        return out


def has_alias_cycle(schemas):
    objs = {(s["pkg"], o["name"]): o["type"] for s in schemas for o in s["objects"]}
    for key, t in objs.items():
        seen = set()
        while t.get("k") == "ref":
            k = (t.get("pkg"), t.get("name"))
            if k in seen:
                return True
            seen.add(k)
            if k not in objs:
                break
            t = objs[k]
    return False


def gen_schemas(rng, depth=3):
    """schema sets on which FromAST terminates (an alias cycle overflows its stack: C04's subject)"""
    for _ in range(20):
        if rng.random() < 0.3:
            ss = irgen.IRGen(rng, max_depth=depth, features={"resolving": True, "acyclic_aliases": True}).schemas()
        else:
            ss = SchemaGen(rng).schemas()
        if not has_alias_cycle(ss):
            return ss
    return SchemaGen(rng).schemas()


# ---------------------------------------------------------------- what FromAST will derive (approximation, only to aim rules)
def resolve(schemas, t, fuel=8):
    while t.get("k") == "ref" and fuel > 0:
        fuel -= 1
        nxt = None
        for s in schemas:
            if s["pkg"] == t.get("pkg"):
                for o in s["objects"]:
                    if o["name"] == t.get("name"):
                        nxt = o["type"]
                break
        if nxt is None:
            return t
        t = nxt
    return t


def builders_of(schemas):
    out = []
    for s in schemas:
        for o in s["objects"]:
            t = resolve(schemas, o["type"])
            if t.get("k") == "struct":
                opts = [f for f in t.get("fields", []) if not (f["type"].get("k") == "scalar" and f["type"].get("val") is not None)
                        and f["type"].get("k") != "cref"]
                out.append({"pkg": s["pkg"], "obj": o["name"], "name": o["name"], "fields": t.get("fields", []), "opts": opts,
                            "schema": s})
    return out


vary = irgen.vary_case


def kind_of(schemas, f):
    t = f["type"]
    k = t.get("k")
    if k == "ref":
        rt = resolve(schemas, t)
        if rt.get("k") == "struct":
            return "disjstruct" if rt.get("dh") else "struct"
        return "ref"
    if k == "scalar":
        return "bool" if t.get("sk") == "bool" else "scalar"
    return k


# ---------------------------------------------------------------- rules
class RuleGen:
    def __init__(self, rng, schemas):
        self.rng = rng
        self.schemas = schemas
        self.bs = builders_of(schemas)
        self.names = {}       # builder name changes made by earlier rules: (pkg,obj) -> extra names

    # -- selectors
    def pick_builder(self):
        return self.rng.choice(self.bs) if self.bs else None

    def bsel(self, b=None, allow_bad=True):
        r = self.rng
        c = r.random()
        b = b or self.pick_builder()
        if b is None or c < 0.06:
            return {"by_object": r.choice(["Absent", "Foo"])}
        if c < 0.5:
            return {"by_object": vary(r, b["obj"])}
        if c < 0.8:
            return {"by_name": vary(r, r.choice([b["name"]] + self.names.get((b["pkg"], b["obj"]), [])))}
        if c < 0.88:
            return {"by_variant": r.choice(VARIANTS)}
        if c < 0.955:
            return {"generated_from_disjunction": r.random() < 0.8}
        if allow_bad and c < 0.96:
            return {}
        return {"by_object": vary(r, b["obj"]), "by_name": "Other"}

    def pick_option(self, b, want=None):
        r = self.rng
        opts = b["opts"] if b else []
        if want and r.random() < 0.8:
            good = [f for f in opts if kind_of(self.schemas, f) in want]
            if good:
                return r.choice(good)["name"]
        if opts and r.random() < 0.9:
            return r.choice(opts)["name"]
        return r.choice(["absent", "id", "name"])

    def osel(self, b=None, want=None, opt=None):
        r = self.rng
        b = b or self.pick_builder()
        opt = opt or self.pick_option(b, want)
        optn = vary(r, opt)
        obj = b["obj"] if b else "Foo"
        bn = r.choice([b["name"]] + self.names.get((b["pkg"], b["obj"]), [])) if b else "Foo"
        c = r.random()
        if c < 0.45:
            return {"by_name": vary(r, obj) + "." + optn}
        if c < 0.7:
            return {"by_builder": vary(r, bn) + "." + optn}
        if c < 0.93:
            extra = [self.pick_option(b) for _ in range(r.randint(0, 2))]
            sel = {"options": [optn] + extra}
            if r.random() < 0.5:
                sel["object"] = vary(r, obj)
            else:
                sel["builder"] = vary(r, bn)
            if r.random() < 0.05:
                sel = {"options": [optn]}
            return {"by_names": sel}
        if c < 0.94:
            return {"by_name": optn}          # no dot: load error
        if c < 0.95:
            return {}
        if c < 0.96:
            return {"by_builder": "." + optn}
        return {"by_name": vary(r, obj) + "." + optn}

    # -- small IR pieces usable in YAML as well
    def simple_type(self):
        r = self.rng
        c = r.random()
        if c < 0.5:
            t = S(r.choice(["string", "int64", "bool", "float64"]))
        elif c < 0.65:
            t = {"k": "array", "v": S("string")}
        elif c < 0.75:
            t = {"k": "map", "i": S("string"), "v": S("int64")}
        elif c < 0.9 and self.bs:
            b = r.choice(self.bs)
            t = {"k": "ref", "pkg": b["pkg"], "name": b["obj"]}
        else:
            t = S("string", cs=[{"op": "minLength", "args": [dint(1)]}])
        if r.random() < 0.15:
            t["null"] = True
        if r.random() < 0.1:
            t["def"] = dstr("d") if t.get("sk") == "string" else dint(2)
        return t

    def dyn(self):
        r = self.rng
        c = r.random()
        if c < 0.3:
            return dstr(r.choice(["v", "", "timeseries"]))
        if c < 0.5:
            return dint(r.randint(-2, 9))
        if c < 0.65:
            return dbool(r.random() < 0.5)
        if c < 0.75:
            return {"t": "float64", "v": "1.5"}
        if c < 0.85:
            return {"t": "list", "v": [dstr("a"), dint(1)]}
        if c < 0.93:
            return {"t": "map", "v": {"k": dstr("v")}}
        return None

    def path_in(self, b, depth=2):
        """a dotted property path starting at builder b (mostly valid)"""
        r = self.rng
        if b is None or not b["fields"]:
            return r.choice(["id", "", "a.b"])
        parts = []
        fields = b["fields"]
        for _ in range(r.randint(1, depth)):
            if not fields:
                break
            f = r.choice(fields)
            parts.append(f["name"])
            t = resolve(self.schemas, f["type"])
            fields = t.get("fields", []) if t.get("k") == "struct" else []
        c = r.random()
        if c < 0.04:
            parts.append("absentField")
        elif c < 0.05:
            return ""
        return ".".join(parts)

    def vvalue(self, args, b, path):
        r = self.rng
        c = r.random()
        if c < 0.5 and args:
            return {"argument": copy.deepcopy(r.choice(args))}
        if c < 0.6:
            return {"argument": {"name": "undeclared", "type": S("string")}}
        if c < 0.85:
            return {"constant": self.dyn() or dstr("c")}
        if c < 0.95:
            # envelope: fields of the struct the path ends in
            t = self.type_at(b, path)
            if t is not None:
                for _ in range(2):
                    if t.get("k") == "array":
                        t = t["v"]
                    if t.get("k") == "map":
                        t = t["v"]
                t = resolve(self.schemas, t)
            fs = t.get("fields", []) if t and t.get("k") == "struct" else []
            vals = []
            for f in r.sample(fs, min(len(fs), r.randint(0, 2))):
                vals.append({"field": f["name"], "value": {"constant": dstr("e")} if r.random() < 0.6 or not args
                             else {"argument": copy.deepcopy(args[0])}})
            if r.random() < 0.15:
                vals.append({"field": "nofield", "value": {"constant": dint(1)}})
            return {"envelope": {"values": vals}}
        return {}

    def type_at(self, b, path):
        if b is None or not path:
            return None
        t = {"k": "struct", "fields": b["fields"]}
        for part in path.split("."):
            t = resolve(self.schemas, t)
            if t.get("k") != "struct":
                return None
            f = [x for x in t["fields"] if x["name"] == part]
            if not f:
                return None
            t = f[0]["type"]
        return t

    def vassignment(self, args, b):
        r = self.rng
        p = self.path_in(b)
        return {"path": p, "method": r.choice(["direct", "direct", "append", "index"]), "value": self.vvalue(args, b, p)}

    def voption(self, b):
        r = self.rng
        args = [{"name": n, "type": self.simple_type()} for n in r.sample(["v", "w", "tags", "key"], r.randint(0, 2))]
        o = {"name": r.choice(OPTION_NAMES), "arguments": args,
             "assignments": [self.vassignment(args, b) for _ in range(r.randint(0, 2))]}
        if r.random() < 0.3:
            o["comments"] = ["added"]
        return o

    def factory(self, b):
        r = self.rng
        args = [{"name": n, "type": self.simple_type()} for n in r.sample(["a", "b"], r.randint(0, 2))]
        calls = []
        for _ in range(r.randint(0, 2)):
            ps = []
            for _ in range(r.randint(0, 2)):
                c = r.random()
                if c < 0.4 and args:
                    ps.append({"argument": copy.deepcopy(r.choice(args))})
                elif c < 0.8:
                    ps.append({"constant": {"type": S("string"), "value": dstr("k")}})
                else:
                    ps.append({"factory": {"ref": {"package": "alpha", "builder": "Foo", "factory": "New"},
                                           "parameters": [{"constant": {"type": S("int64"), "value": dint(1)}}]}})
            calls.append({"name": self.pick_option(b), "parameters": ps})
        f = {"name": r.choice(["New", "Default"]), "arguments": args, "options": calls}
        if r.random() < 0.3:
            f["comments"] = ["factory"]
        return f

    # -- builder rules
    def brule(self, kind=None):
        r = self.rng
        kind = kind or r.choice(["omit", "rename", "merge_into", "compose", "properties", "duplicate", "initialize",
                                 "promote_options_to_constructor", "add_option", "add_factory"] * 6 + ["empty", "double"])
        b = self.pick_builder()
        if kind == "omit":
            return {"omit": self.bsel(b)}
        if kind == "rename":
            n = r.choice(BUILDER_NAMES)
            if b:
                self.names.setdefault((b["pkg"], b["obj"]), []).append(n)
            return {"rename": dict(self.bsel(b), **{"as": n})}
        if kind == "merge_into":
            src = self.pick_builder()
            dest = b
            # aim: a destination with a field that refers to the source
            cands = [(d, f) for d in self.bs for f in d["fields"] if f["type"].get("k") == "ref" and
                     any(s["pkg"] == f["type"]["pkg"] and s["obj"] == f["type"]["name"] and s["pkg"] == d["pkg"] for s in self.bs)]
            under = self.path_in(dest, 1)
            if not cands and r.random() < 0.85:
                return self.brule(r.choice(["omit", "rename", "duplicate", "properties", "initialize"]))
            if cands and r.random() < 0.9:
                dest, f = r.choice(cands)
                src = [s for s in self.bs if s["pkg"] == f["type"]["pkg"] and s["obj"] == f["type"]["name"]][0]
                under = f["name"]
            m = {"destination": vary(r, dest["name"]) if dest else "Foo", "source": src["name"] if src else "Bar", "under_path": under}
            if r.random() < 0.3 and src and src["opts"]:
                m["exclude_options"] = [r.choice(src["opts"])["name"]]
            if r.random() < 0.3 and src and src["opts"]:
                m["rename_options"] = {r.choice(src["opts"])["name"]: r.choice(OPTION_NAMES)}
            return {"merge_into": m}
        if kind == "compose":
            src = b
            cands = [x for x in self.bs if any(resolve(self.schemas, f["type"]).get("sk") in ("any", "string") for f in x["fields"])]
            if cands and r.random() < 0.8:
                src = r.choice(cands)
            c = self.bsel(None) if r.random() < 0.3 else {"by_variant": r.choice(VARIANTS)}
            c["source_builder_name"] = (src["pkg"] + "." + src["obj"]) if src and r.random() < 0.93 else r.choice(["nodot", "alpha.Absent"])
            disc = [f["name"] for f in (src["fields"] if src else []) if f["type"].get("sk") == "string"]
            c["plugin_discriminator_field"] = r.choice(disc) if disc and r.random() < 0.9 else r.choice(["type", "kind"])
            cmap = {}
            anyf = [f["name"] for f in (src["fields"] if src else [])]
            for x in r.sample(self.bs, min(len(self.bs), r.randint(0, 3))):
                cmap[x["obj"]] = r.choice(anyf) if anyf and r.random() < 0.9 else r.choice(["options", ""])
            if r.random() < 0.25:
                cmap["__schema_entrypoint"] = r.choice(anyf) if anyf and r.random() < 0.9 else "spec"
            c["composition_map"] = cmap
            if r.random() < 0.3 and src and src["opts"]:
                c["exclude_options"] = [vary(r, r.choice(src["opts"])["name"])]
            if r.random() < 0.4:
                c["composed_builder_name"] = r.choice(BUILDER_NAMES)
            c["preserve_original_builders"] = r.random() < 0.5
            return {"compose": c}
        if kind == "properties":
            return {"properties": dict(self.bsel(b), set=[{"name": n, "type": self.simple_type(), "req": r.random() < 0.5}
                                                         for n in r.sample(["prop", "internal"], r.randint(0, 2))])}
        if kind == "duplicate":
            n = r.choice(BUILDER_NAMES)
            if b:
                self.names.setdefault((b["pkg"], b["obj"]), []).append(n)
            d = dict(self.bsel(b), **{"as": n})
            if r.random() < 0.35 and b and b["opts"]:
                d["exclude_options"] = [vary(r, r.choice(b["opts"])["name"])]
            return {"duplicate": d}
        if kind == "initialize":
            return {"initialize": dict(self.bsel(b), set=[{"property": self.path_in(b), "value": self.dyn()} for _ in range(r.randint(0, 2))])}
        if kind == "promote_options_to_constructor":
            return {"promote_options_to_constructor": dict(self.bsel(b), options=[vary(r, self.pick_option(b)) for _ in range(r.randint(0, 2))])}
        if kind == "add_option":
            return {"add_option": dict(self.bsel(b), option=self.voption(b))}
        if kind == "add_factory":
            return {"add_factory": dict(self.bsel(b), factory=self.factory(b))}
        if kind == "empty":
            return {}
        return dict(self.brule("rename"), **self.brule("omit"))

    # -- option rules
    def orule(self, kind=None, b=None, opt=None):
        r = self.rng
        kind = kind or r.choice(["omit", "rename", "rename_arguments", "unfold_boolean", "struct_fields_as_arguments",
                                 "struct_fields_as_options", "array_to_append", "map_to_index", "disjunction_as_options",
                                 "duplicate", "add_assignment", "add_comments"] * 6 + ["empty", "double"])
        b = b or self.pick_builder()
        if kind == "omit":
            return {"omit": self.osel(b, opt=opt)}
        if kind == "rename":
            return {"rename": dict(self.osel(b, opt=opt), **{"as": r.choice(OPTION_NAMES)})}
        if kind == "rename_arguments":
            n = r.choice([1, 1, 1, 2, 0])
            return {"rename_arguments": dict(self.osel(b, opt=opt), **{"as": r.sample(["x", "y", "val", "tags"], n)})}
        if kind == "unfold_boolean":
            return {"unfold_boolean": dict(self.osel(b, ["bool"], opt), true_as=r.choice(["on", "enable"]), false_as=r.choice(["off", "disable"]))}
        if kind in ("struct_fields_as_arguments", "struct_fields_as_options"):
            d = self.osel(b, ["struct"], opt)
            c = r.random()
            if c < 0.3:
                d["fields"] = r.sample(FIELD_NAMES, r.randint(0, 3))
            return {kind: d}
        if kind == "array_to_append":
            return {"array_to_append": self.osel(b, ["array"], opt)}
        if kind == "map_to_index":
            return {"map_to_index": self.osel(b, ["map"], opt)}
        if kind == "disjunction_as_options":
            d = self.osel(b, ["disj", "disjstruct"], opt)
            c = r.random()
            if c > 0.7:
                d["argument_index"] = r.choice([0, 0, 1, 2, -1])
            return {"disjunction_as_options": d}
        if kind == "duplicate":
            return {"duplicate": dict(self.osel(b, opt=opt), **{"as": r.choice(OPTION_NAMES)})}
        if kind == "add_assignment":
            args = []
            if b and b["opts"] and r.random() < 0.6:
                f = r.choice(b["opts"])
                args = [{"name": f["name"], "type": S("string")}]
            return {"add_assignment": dict(self.osel(b, opt=opt), assignment=self.vassignment(args, b))}
        if kind == "add_comments":
            return {"add_comments": dict(self.osel(b, opt=opt), comments=[r.choice(irgen.COMMENTS) for _ in range(r.randint(0, 2))])}
        if kind == "empty":
            return {}
        return dict(self.orule("rename", b), **self.orule("omit", b))


WRITERS = ["rename_arguments", "array_to_append", "map_to_index"]


def writer_rule(g, r, sel, f):
    """an option action that writes through shared cells, aimed at an option derived from field f"""
    kd = kind_of(g.schemas, f)
    c = r.random()
    if kd == "array" and c < 0.7:
        return {"array_to_append": sel}
    if kd == "map" and c < 0.7:
        return {"map_to_index": sel}
    return {"rename_arguments": dict(sel, **{"as": [r.choice(["x", "val", "tags"])]})}


def sharing_scenario(g, r, schemas, pkg):
    """a builder rule that copies options shallowly (merge_into, compose, promote, add_option)
    followed by option actions that write through what the copies share"""
    allb = builders_of(schemas)
    brules, orules = [], []
    mk = r.choice(["merge_into", "merge_into", "compose", "promote", "add_option", "dup_option", "dup_builder"])
    if mk in ("dup_option", "dup_builder"):
        # deep copies: a write on the copy (or on the original) must NOT reach the other
        cands = [b for b in allb if b["pkg"] == pkg and b["opts"]] or [b for b in allb if b["opts"]]
        if not cands:
            return [g.brule()], [g.orule()]
        b = r.choice(cands)
        sf = r.choice(b["opts"])
        if mk == "dup_option":
            orules.append({"duplicate": {"by_name": b["obj"] + "." + sf["name"], "as": "copyOf"}})
            orules.append(writer_rule(g, r, {"by_name": b["obj"] + "." + r.choice(["copyOf", sf["name"]])}, sf))
        else:
            brules.append({"duplicate": {"by_object": b["obj"], "as": "Copy"}})
            orules.append(writer_rule(g, r, {"by_builder": r.choice(["Copy", b["name"]]) + "." + sf["name"]}, sf))
        return brules, orules
    if mk == "merge_into":
        cands = [(d, f, s) for d in allb if d["pkg"] == pkg for f in d["fields"] if f["type"].get("k") == "ref"
                 for s in allb if s["pkg"] == d["pkg"] and s["obj"] == f["type"].get("name") and f["type"].get("pkg") == s["pkg"]
                 and s["obj"] != d["obj"] and s["opts"]]
        if not cands:
            return [g.brule("merge_into")], [g.orule(r.choice(WRITERS))]
        d, f, src = r.choice(cands)
        brules.append({"merge_into": {"destination": d["name"], "source": src["name"], "under_path": f["name"]}})
        for _ in range(r.randint(1, 2)):
            sf = r.choice(src["opts"])
            where = r.random()
            if where < 0.6:      # write on the copy held by the destination
                sel = {"by_builder": d["name"] + "." + sf["name"]}
            else:                # write on the source: the destination's copy changes
                sel = {"by_name": src["obj"] + "." + sf["name"]}
            orules.append(writer_rule(g, r, sel, sf))
        if r.random() < 0.3:
            brules.append({"omit": {"by_object": src["obj"]}})
    elif mk == "compose":
        comps = [b for b in allb if b["schema"].get("meta", {}).get("kind") == "composable" and b["schema"]["meta"].get("id")]
        srcs = [b for b in allb if any(f["type"].get("sk") == "string" for f in b["fields"])]
        if not comps or not srcs:
            return [g.brule("compose")], [g.orule(r.choice(WRITERS))]
        src = r.choice(srcs)
        variant = r.choice(comps)["schema"]["meta"].get("variant", "")
        disc = r.choice([f["name"] for f in src["fields"] if f["type"].get("sk") == "string"])
        slots = [f["name"] for f in src["fields"] if f["type"].get("sk") == "any"] or [f["name"] for f in src["fields"]]
        cmap = {b["obj"]: r.choice(slots) for b in comps if b["schema"]["meta"].get("variant", "") == variant}
        name = r.choice(["", "Composed"])
        brules.append({"compose": {"by_variant": variant, "source_builder_name": src["pkg"] + "." + src["obj"],
                                   "plugin_discriminator_field": disc, "composition_map": cmap, "composed_builder_name": name,
                                   "preserve_original_builders": r.random() < 0.7}})
        for _ in range(r.randint(1, 2)):
            cb = r.choice(comps)
            if not cb["opts"]:
                continue
            sf = r.choice(cb["opts"])
            if r.random() < 0.5:
                sel = {"by_name": cb["obj"] + "." + sf["name"]}
            else:
                sel = {"by_builder": (name or src["obj"]) + "." + sf["name"]}
            orules.append(writer_rule(g, r, sel, sf))
    elif mk == "promote":
        cands = [b for b in allb if b["pkg"] == pkg and b["opts"]] or [b for b in allb if b["opts"]]
        if not cands:
            return [g.brule()], [g.orule()]
        b = r.choice(cands)
        sf = r.choice(b["opts"])
        brules.append({"promote_options_to_constructor": {"by_object": b["obj"], "options": [sf["name"]]}})
        orules.append(writer_rule(g, r, {"by_name": b["obj"] + "." + sf["name"]}, sf))
    else:
        cands = [b for b in allb if b["pkg"] == pkg and b["fields"]]
        if len(cands) < 1:
            return [g.brule("add_option")], [g.orule(r.choice(WRITERS))]
        arg = {"name": "v", "type": S("string")}
        for b in r.sample(cands, min(len(cands), 2)):
            f = r.choice(b["fields"])
            brules.append({"add_option": {"by_object": b["obj"], "option": {
                "name": "extra", "arguments": [copy.deepcopy(arg)],
                "assignments": [{"path": f["name"], "method": "direct", "value": {"argument": copy.deepcopy(arg)}}]}}})
        if r.random() < 0.5:
            # one rule, several builders: the rule's own argument cells are shared between them
            brules = [{"add_option": dict(brules[0]["add_option"], **{"by_object": None})}]
            brules[0]["add_option"].pop("by_object")
            brules[0]["add_option"]["generated_from_disjunction"] = True
            brules[0]["add_option"]["option"]["assignments"] = []
        orules.append({"rename_arguments": {"by_name": cands[0]["obj"] + ".extra", "as": ["w"]}})
    if r.random() < 0.3:
        orules.append(g.orule())
    return brules, orules


def gen_files(rng, schemas):
    """rule files; a share of the cases follows a sharing-creating builder rule by an option
    action that writes through what the copies share"""
    g = RuleGen(rng, schemas)
    r = rng
    pkgs = [s["pkg"] for s in schemas]
    if r.random() < 0.28 and g.bs:
        # one rule only: the runs on which the rule contracts are judged against the input
        b = r.choice(g.bs)
        g.bs = [x for x in g.bs if x["pkg"] == b["pkg"]]
        if r.random() < 0.3:
            rules = ([g.brule(r.choice(["omit", "rename", "duplicate", "duplicate"]))], [])
        else:
            rules = ([], [g.orule(r.choice(["omit", "rename", "duplicate", "add_comments", "unfold_boolean", "array_to_append",
                                            "map_to_index", "struct_fields_as_arguments", "struct_fields_as_options",
                                            "disjunction_as_options", "rename_arguments"]), b)])
        return [{"language": r.choice(["all", "go"]), "package": b["pkg"], "builders": rules[0], "options": rules[1]}]
    nfiles = r.choice([1, 1, 1, 2, 2, 3])
    files = []
    for _ in range(nfiles):
        c = r.random()
        pkg = r.choice(pkgs) if c < 0.95 or not pkgs else ("nopkg" if c < 0.992 else "")
        # rules are aimed at builders of the file's package (selectors carry it)
        g.bs = [b for b in builders_of(schemas) if b["pkg"] == pkg] or builders_of(schemas)
        brules, orules = [], []
        scen = r.random()
        if scen < 0.22 and g.bs:
            brules, orules = sharing_scenario(g, r, schemas, pkg)
        else:
            for _ in range(r.choice([0, 0, 1, 1, 1, 2, 3])):
                brules.append(g.brule())
            for _ in range(r.choice([0, 1, 1, 2, 2, 3, 4])):
                orules.append(g.orule())
        files.append({"language": r.choice(["all", "all", "go", "go", "python"]), "package": pkg,
                      "builders": brules, "options": orules})
    return files


# ---------------------------------------------------------------- YAML rendering (JSON flow style is YAML)
def yaml_dyn(d):
    if d is None:
        return None
    t, v = d["t"], d["v"]
    if t == "list":
        return [yaml_dyn(x) for x in v]
    if t == "map":
        return {k: yaml_dyn(x) for k, x in v.items()}
    if t in ("float64", "float32", "number"):
        return float(v)
    return v


def yaml_type(t):
    k = t["k"]
    out = {"kind": {"scalar": "scalar", "array": "array", "map": "map", "ref": "ref", "struct": "struct", "enum": "enum",
                    "disj": "disjunction"}[k]}
    if t.get("null"):
        out["nullable"] = True
    if t.get("def") is not None:
        out["default"] = yaml_dyn(t["def"])
    if k == "scalar":
        sc = {"scalar_kind": t["sk"]}
        if t.get("val") is not None:
            sc["value"] = yaml_dyn(t["val"])
        if t.get("cs"):
            sc["constraints"] = [{"op": c["op"], "args": [yaml_dyn(a) for a in c["args"]]} for c in t["cs"]]
        out["scalar"] = sc
    elif k == "array":
        out["array"] = {"value_type": yaml_type(t["v"])}
    elif k == "map":
        out["map"] = {"indextype": yaml_type(t["i"]), "valuetype": yaml_type(t["v"])}
    elif k == "ref":
        out["ref"] = {"referred_pkg": t["pkg"], "referred_type": t["name"]}
    else:
        raise ValueError("type not rendered to YAML: " + k)
    return out


def to_yaml_value(x):
    if isinstance(x, dict):
        if "k" in x and isinstance(x.get("k"), str) and x["k"] in ("scalar", "array", "map", "ref", "struct", "enum", "disj"):
            return yaml_type(x)
        if set(x.keys()) == {"t", "v"}:
            return yaml_dyn(x)
        out = {}
        for k, v in x.items():
            if k == "req" and "name" in x and "type" in x:
                out["required"] = v
            else:
                out[k] = to_yaml_value(v)
        return out
    if isinstance(x, list):
        return [to_yaml_value(v) for v in x]
    return x


def render_yaml(f):
    doc = {"language": f["language"], "package": f["package"],
           "builders": to_yaml_value(f["builders"]), "options": to_yaml_value(f["options"])}
    return json.dumps(doc)


def gen_job(rng, depth=3):
    schemas = gen_schemas(rng, depth)
    files = gen_files(rng, schemas)
    via = "yaml" if rng.random() < 0.5 else "direct"
    for f in files:
        f["yaml"] = render_yaml(f)
    return {"schemas": schemas, "language": "go", "via": via, "files": files}


# ---------------------------------------------------------------- fixed cases run before the generated ones
def seed_jobs():
    """hand-written cases: the sharing scenarios (shallow copies followed by array_to_append / map_to_index /
    rename_arguments: harmless since /repo a8e18fa, they pin that down), the witnesses of the open findings
    (stale constraint, unchecked merge target, assumed shape), compose with two plugin types, the borderline
    parameters that make rules panic, duplicate after add_factory (defaults and factories must be copied)"""
    def C(v):
        return S("string", val=dstr(v))
    base = [{"pkg": "alpha", "meta": {}, "entry": "", "objects": [
        {"name": "Foo", "type": {"k": "struct", "fields": [
            {"name": "tags", "type": {"k": "array", "v": S("string")}, "req": True},
            {"name": "name", "type": S("string", cs=[{"op": "minLength", "args": [irgen.dint(1, "int64")]}]), "req": True},
            {"name": "flag", "type": S("bool", **{"def": dbool(True)}), "req": True, "comments": ["a flag", "on by default"]},
            {"name": "labels", "type": {"k": "map", "i": S("string"), "v": S("bool")}, "req": False},
            {"name": "choice", "type": {"k": "disj", "branches": [S("string"), S("int64")]}, "req": False},
            {"name": "either", "type": {"k": "disj", "branches": [{"k": "map", "i": S("string"), "v": S("bool")}, S("string")]}, "req": False},
            {"name": "sub", "type": {"k": "disj", "branches": [{"k": "ref", "pkg": "alpha", "name": "Bar"}, S("string")]}, "req": False}]}},
        {"name": "Bar", "type": {"k": "struct", "fields": [
            {"name": "foo", "type": {"k": "ref", "pkg": "alpha", "name": "Foo"}, "req": True},
            {"name": "id", "type": S("int64"), "req": True}]}}]}]
    panels = [
        {"pkg": "dash", "meta": {}, "entry": "", "objects": [
            {"name": "Panel", "type": {"k": "struct", "fields": [
                {"name": "type", "type": S("string"), "req": True},
                {"name": "k1", "type": C("a"), "req": True}, {"name": "k2", "type": C("b"), "req": True},
                {"name": "k3", "type": C("c"), "req": True},
                {"name": "title", "type": S("string"), "req": True},
                {"name": "options", "type": S("any"), "req": True}]}}]},
        {"pkg": "ts", "meta": {"kind": "composable", "variant": "panelcfg", "id": "timeseries"}, "entry": "", "objects": [
            {"name": "Options", "type": {"k": "struct", "fields": [
                {"name": "legend", "type": S("bool"), "req": True},
                {"name": "tags", "type": {"k": "array", "v": S("string")}, "req": True}]}}]},
        {"pkg": "tb", "meta": {"kind": "composable", "variant": "panelcfg", "id": "table"}, "entry": "", "objects": [
            {"name": "Options", "type": {"k": "struct", "fields": [{"name": "header", "type": S("bool"), "req": True}]}}]}]
    compose = {"compose": {"by_variant": "panelcfg", "source_builder_name": "dash.Panel", "plugin_discriminator_field": "type",
                           "composition_map": {"Options": "options"}, "preserve_original_builders": True}}
    cases = [
        (base, "alpha", [{"merge_into": {"destination": "Bar", "source": "Foo", "under_path": "foo"}}],
         [{"array_to_append": {"by_builder": "Bar.tags"}}]),
        (base, "alpha", [{"merge_into": {"destination": "Bar", "source": "Foo", "under_path": "foo"}}],
         [{"rename_arguments": {"by_builder": "Bar.flag", "as": ["enabled"]}}]),
        (base, "alpha", [{"promote_options_to_constructor": {"by_object": "Foo", "options": ["tags"]}}],
         [{"array_to_append": {"by_name": "Foo.tags"}}]),
        (base, "alpha", [], [{"rename_arguments": {"by_name": "Foo.name", "as": ["title"]}}]),
        (base, "alpha", [], [{"map_to_index": {"by_name": "Foo.labels"}}, {"unfold_boolean": {"by_name": "Foo.labels", "true_as": "on", "false_as": "off"}}]),
        (panels, "dash", [compose], []),
        (panels, "ts", [compose], [{"array_to_append": {"by_builder": "Panel.tags"}}]),
        # compose into a field that is not an `any`: the type hint lands on a string (unchecked target)
        (panels, "dash", [{"compose": dict(compose["compose"], composition_map={"Options": "title"})}], []),
        (base, "alpha", [{"add_option": {"by_object": "Foo", "option": {"name": "bare", "arguments": [], "assignments": []}}}],
         [{"unfold_boolean": {"by_name": "Foo.bare", "true_as": "on", "false_as": "off"}}]),
        (base, "alpha", [], [{"disjunction_as_options": {"by_name": "Foo.choice", "argument_index": 1}}]),
        (base, "alpha", [], [{"disjunction_as_options": {"by_name": "Foo.choice", "argument_index": -1}}]),
        (base, "alpha", [], [{"disjunction_as_options": {"by_name": "Foo.choice"}}]),
        (base, "alpha", [{"add_factory": {"by_object": "Foo", "factory": {"name": "New", "arguments": [{"name": "a", "type": S("string")}],
                                                                          "options": [{"name": "name", "parameters": [{"argument": {"name": "a", "type": S("string")}}]}]}}},
                         {"duplicate": {"by_object": "Foo", "as": "FooCopy"}}], []),
        (base, "alpha", [{"duplicate": {"by_object": "Foo", "as": "FooCopy", "exclude_options": ["TAGS"]}}], []),
        (base, "alpha", [], [{"unfold_boolean": {"by_name": "Foo.flag", "true_as": "on", "false_as": "off"}}]),
        (base, "alpha", [], [{"struct_fields_as_arguments": {"by_name": "Bar.foo"}}]),
        (base, "alpha", [], [{"struct_fields_as_options": {"by_name": "Bar.foo", "fields": ["tags", "name"]}}]),
        (base, "alpha", [], [{"array_to_append": {"by_name": "foo.TAGS"}}]),
        (base, "alpha", [], [{"map_to_index": {"by_builder": "Foo.labels"}}]),
        (base, "alpha", [], [{"rename": {"by_name": "Foo.flag", "as": "enabled"}}]),
        (base, "alpha", [], [{"omit": {"by_names": {"object": "Foo", "options": ["tags", "NAME"]}}}]),
        (base, "alpha", [], [{"duplicate": {"by_name": "Foo.flag", "as": "flagAgain"}}]),
        (base, "alpha", [], [{"add_comments": {"by_name": "Foo.flag", "comments": ["a flag"]}}]),
        (base, "alpha", [{"rename": {"by_object": "foo", "as": "FooBuilder"}}], []),
        (base, "alpha", [{"omit": {"by_name": "BAR"}}], []),
        # copies keep the default marker unfold_boolean puts on the option matching the field's default (Default = &OptionDefault{})
        (base, "alpha", [], [{"unfold_boolean": {"by_name": "Foo.flag", "true_as": "on", "false_as": "off"}},
                             {"duplicate": {"by_name": "Foo.on", "as": "onAgain"}}]),
        (base, "alpha", [{"duplicate": {"by_object": "Foo", "as": "FooCopy"}}],
         [{"unfold_boolean": {"by_builder": "FooCopy.flag", "true_as": "on", "false_as": "off"}}]),
        # merge_into only carries the CONSTANT constructor assignments of the source over (not the promoted, argument-driven ones)
        (base, "alpha", [{"promote_options_to_constructor": {"by_object": "Foo", "options": ["tags"]}},
                         {"merge_into": {"destination": "Bar", "source": "Foo", "under_path": "foo"}}], []),
        # deep copies share nothing: writes on the copy leave the original alone
        (base, "alpha", [], [{"duplicate": {"by_name": "Foo.tags", "as": "tagsAgain"}}, {"array_to_append": {"by_name": "Foo.tagsAgain"}}]),
        (base, "alpha", [{"duplicate": {"by_object": "Foo", "as": "FooCopy"}}], [{"rename_arguments": {"by_builder": "FooCopy.flag", "as": ["enabled"]}}]),
        # rules that assume the shape FromAST derives (argument type = target type, one argument)
        (base, "alpha", [], [{"disjunction_as_options": {"by_name": "Foo.either"}}, {"map_to_index": {"by_name": "Foo.map"}}]),
        (base, "alpha", [], [{"disjunction_as_options": {"by_name": "Foo.sub"}}, {"struct_fields_as_options": {"by_name": "Foo.bar"}}]),
        (base, "alpha", [], [{"disjunction_as_options": {"by_name": "Foo.sub"}}, {"struct_fields_as_arguments": {"by_name": "Foo.bar"}}]),
    ]
    jobs = []
    two_pass = {"schemas": copy.deepcopy(base), "language": "go", "via": "direct", "files": [
        {"language": "all", "package": "alpha", "builders": [], "options": [{"map_to_index": {"by_name": "Foo.labels"}}]},
        {"language": "go", "package": "alpha", "builders": [{"promote_options_to_constructor": {"by_object": "Foo", "options": ["labels"]}}],
         "options": []}]}
    for f in two_pass["files"]:
        f["yaml"] = render_yaml(f)
    jobs.append(two_pass)
    # unfold_boolean at the common level, then a copying rule at the language level: the copy keeps the marker
    for lang_b, lang_o in (([{"duplicate": {"by_object": "Foo", "as": "FooCopy"}}], []),
                           ([], [{"duplicate": {"by_name": "Foo.on", "as": "onAgain"}}])):
        j = {"schemas": copy.deepcopy(base), "language": "go", "via": "yaml" if lang_o else "direct", "files": [
            {"language": "all", "package": "alpha", "builders": [],
             "options": [{"unfold_boolean": {"by_name": "Foo.flag", "true_as": "on", "false_as": "off"}}]},
            {"language": "go", "package": "alpha", "builders": lang_b, "options": lang_o}]}
        for f in j["files"]:
            f["yaml"] = render_yaml(f)
        jobs.append(j)
    for n, (schemas, pkg, brs, ors) in enumerate(cases):
        f = {"language": "all", "package": pkg, "builders": copy.deepcopy(brs), "options": copy.deepcopy(ors)}
        f["yaml"] = render_yaml(f)
        jobs.append({"schemas": copy.deepcopy(schemas), "language": "go", "via": "yaml" if n % 2 else "direct", "files": [f]})
    return jobs


# ---------------------------------------------------------------- deep assignment paths
def deep_path_job(rng):
    """a chain of structs L0.f1 -> L1.f2 -> ... -> Lk with a leaf of several differently typed fields; rules
    that derive SEVERAL paths from one prefix of k items (merge_into under a k-segment path, struct fields
    unfolded level by level): every derived path must still end at its own field, whatever k is"""
    r = rng
    k = r.choice([1, 2, 3, 3, 3, 4, 5, 6, 7, 8])
    leaf_types = [S("string"), S("bool"), S("int64"), {"k": "array", "v": S("string")}, S("float64"),
                  {"k": "map", "i": S("string"), "v": S("bool")}]
    nleaf = r.randint(2, 5)
    leaf_fields = [{"name": n, "type": copy.deepcopy(t), "req": True}
                   for n, t in zip(r.sample(["unit", "hidden", "width", "tags", "ratio", "labels"], nleaf), r.sample(leaf_types, nleaf))]
    objs = []
    fnames = r.sample(["fieldConfig", "defaults", "custom", "inner", "spec", "cfg", "deep", "more", "last"], k)
    for i in range(k):
        fields = [{"name": fnames[i], "type": {"k": "ref", "pkg": "deep", "name": "L%d" % (i + 1)}, "req": True}]
        if r.random() < 0.5:
            fields.append({"name": "title%d" % i, "type": S("string"), "req": True})
        r.shuffle(fields)
        objs.append({"name": "L%d" % i, "type": {"k": "struct", "fields": fields}})
    objs.append({"name": "L%d" % k, "type": {"k": "struct", "fields": leaf_fields}})
    schemas = [{"pkg": "deep", "meta": {}, "entry": "", "objects": objs}]
    brules, orules = [], []
    mode = r.choice(["merge", "merge", "unfold_options", "unfold_arguments", "merge_then_write"])
    if mode.startswith("merge"):
        start = r.choice([0, 0, 0, 1]) if k > 1 else 0
        brules.append({"merge_into": {"destination": "L%d" % start, "source": "L%d" % k, "under_path": ".".join(fnames[start:])}})
        if mode == "merge_then_write":
            f = r.choice(leaf_fields)
            orules.append(writer_rule(RuleGen(r, schemas), r, {"by_builder": "L%d.%s" % (start, f["name"])}, f))
    else:
        rule = "struct_fields_as_options" if mode == "unfold_options" else "struct_fields_as_arguments"
        for i in range(k):
            orules.append({"struct_fields_as_options" if i < k - 1 else rule: {"by_name": "L0." + fnames[i]}})
    f = {"language": "all", "package": "deep", "builders": brules, "options": orules}
    f["yaml"] = render_yaml(f)
    return {"schemas": schemas, "language": "go", "via": "yaml" if r.random() < 0.5 else "direct", "files": [f]}


# ---------------------------------------------------------------- rules at both levels
def two_level_job(rng):
    """common option (or builder) rules, then ONE language-level rule whose effect depends on what the common
    level did to the same builder: the language-level rule is judged against the state after the common level"""
    r = rng
    for _ in range(20):
        schemas = gen_schemas(r)
        bs = [b for b in builders_of(schemas) if len(b["opts"]) >= 2]
        if bs:
            break
    else:
        return gen_job(r)
    b = r.choice(bs)
    g = RuleGen(r, schemas)
    g.bs = [x for x in builders_of(schemas) if x["pkg"] == b["pkg"]]
    o1, o2 = r.sample(b["opts"], 2)
    common_opts = []
    bools = [f for f in b["opts"] if f["type"].get("k") == "scalar" and f["type"].get("sk") == "bool" and f["type"].get("def") is not None]
    if bools and r.random() < 0.6:
        # unfold a boolean that has a default, then copy: the default marker must survive DeepCopy
        f = r.choice(bools)
        common = [{"unfold_boolean": {"by_builder": b["name"] + "." + f["name"], "true_as": "on", "false_as": "off"}}]
        if r.random() < 0.5:
            lang_b, lang_o = [{"duplicate": {"by_object": b["obj"], "as": "Copy"}}], []
        else:
            lang_b, lang_o = [], [{"duplicate": {"by_builder": b["name"] + "." + r.choice(["on", "off"]), "as": "again"}}]
        files = [{"language": "all", "package": b["pkg"], "builders": [], "options": common},
                 {"language": "go", "package": b["pkg"], "builders": lang_b, "options": lang_o}]
        for fl in files:
            fl["yaml"] = render_yaml(fl)
        return {"schemas": schemas, "language": "go", "via": "yaml" if r.random() < 0.5 else "direct", "files": files}
    c = r.random()
    if c < 0.35:
        common_opts.append({"omit": {"by_builder": b["name"] + "." + o1["name"]}})
    elif c < 0.7:
        common_opts.append({"rename": {"by_builder": b["name"] + "." + o1["name"], "as": "heading"}})
    else:
        common_opts.append(g.orule(None, b))
    if r.random() < 0.3:
        common_opts.append({"add_comments": {"by_builder": b["name"] + "." + o2["name"], "comments": ["common"]}})
    common_builders = [g.brule(r.choice(["properties", "rename", "initialize"]))] if r.random() < 0.2 else []
    c = r.random()
    if c < 0.4:
        lang_b, lang_o = [{"duplicate": {"by_object": b["obj"], "as": "Copy"}}], []
    elif c < 0.55:
        lang_b, lang_o = [{"promote_options_to_constructor": {"by_object": b["obj"], "options": [r.choice(["heading", o1["name"], o2["name"]])]}}], []
    elif c < 0.65:
        lang_b, lang_o = [{"omit": {"by_name": b["name"]}}], []
    elif c < 0.75:
        lang_b, lang_o = [{"rename": {"by_object": b["obj"], "as": "Renamed"}}], []
    else:
        lang_b, lang_o = [], [g.orule(r.choice(["omit", "rename", "duplicate", "add_comments", "rename"]), b,
                                       r.choice(["heading", o1["name"], o2["name"]]))]
    files = [{"language": "all", "package": b["pkg"], "builders": common_builders, "options": common_opts},
             {"language": "go", "package": b["pkg"], "builders": lang_b, "options": lang_o}]
    if r.random() < 0.3:
        files.reverse()       # file order does not matter across levels
    for f in files:
        f["yaml"] = render_yaml(f)
    return {"schemas": schemas, "language": "go", "via": "yaml" if r.random() < 0.5 else "direct", "files": files}
