"""Schemas that DECLARE DEFAULTS AND CONSTANTS (the quantifier of C10), their three renderings, the list of
declared defaults per object, and an auxiliary schema used to ask the schema language's own validator
whether it accepts each default.

A schema is a Src schema of gen/srcgen.py whose struct fields may additionally carry
    "default": <document value>       bool | int | Decimal | str | list | dict (overrides of a struct)
    "dkind"  : "bool" | "int" | "float" | "string" | "enum" | "enumref" | "list" | "struct" | "union" | "alias"
Field types are the Src types; every default is valid for its field type by construction (confirmed by the
reference validators through `aux_schema`).

Rendering of a default, per format:
    jsonschema / openapi : the keyword `default` inside the property's subschema (never next to a `$ref`: both
                           languages ignore siblings of `$ref`, so nothing would be declared); struct defaults on
                           inline objects; union defaults next to `oneOf`
    cue                  : `T | *d`; enum members `"a" | *"b"`; named enums `#E & (*"b" | _)`;
                           lists `[...T] | *[...]`; structs `#S | *{x: 1}`; unions `string | bool | *"x"`

Public API
    CtorGen(rng, fmt).schema(pkg)            -> schema
    render(schema, fmt)                      -> text
    declared(schema, defname)                -> [{"field","kind","value","path"}]  defaults and constants of one object
    all_declared(schema)                     -> {defname: [...]}
    aux_schema(schema, fmt)                  -> (text, {(defname, field): auxdefname}): one definition per field type
    leaves(schema, decl)                     -> [(aux definition name, document)] what to validate for one declared default
"""
import json
from decimal import Decimal

from gen import srcgen

KINDS = ("bool", "int", "float", "string", "enum", "enumref", "list", "struct", "union", "alias", "const")


class CtorGen:
    def __init__(self, rng, fmt, clean=False):
        """clean: avoid the construct that is KNOWN to make the generated Go package uncompilable (list defaults of
        non-strings, in every format), so that the constructors' VALUES get exercised."""
        self.rng = rng
        self.fmt = fmt
        self.clean = clean
        self.defs = []
        self.names = set()

    # ---- helpers
    def fresh(self, prefix):
        i = 0
        while True:
            cand = prefix + chr(ord("a") + i)
            if cand not in self.names:
                self.names.add(cand)
                return cand
            i += 1

    def t_int(self):
        r = self.rng
        w = "int64"
        if self.fmt == "cue" and r.random() < 0.35:
            w = r.choice(["int8", "int16", "int32", "uint8", "uint16", "uint32", "uint64"])
        elif self.fmt == "openapi" and r.random() < 0.35:
            w = "int32"
        t = {"k": "int", "w": w}
        if r.random() < 0.3:
            lo = 0 if w.startswith("u") else r.randint(-5, 5)
            t["ge"] = lo
            t["le"] = lo + r.choice([1, 5, 20, 100])
        return t

    def v_int(self, t):
        r = self.rng
        lo, hi = srcgen.INT_RANGE[t["w"]]
        lo, hi = max(lo, t.get("ge", lo)), min(hi, t.get("le", hi))
        lo, hi = max(lo, -100000), min(hi, 100000)
        return r.choice([lo, hi, r.randint(lo, hi), r.randint(max(lo, -9), min(hi, 9)) if max(lo, -9) <= min(hi, 9) else lo])

    def t_float(self):
        r = self.rng
        w = "float64"
        if self.fmt != "jsonschema" and r.random() < 0.3:
            w = "float32"
        t = {"k": "float", "w": w}
        if self.fmt == "openapi" and w == "float64" and r.random() < 0.3:
            t["nofmt"] = True
        return t

    def v_float(self, t):
        """the value is kept AS THE SCHEMA FILE SPELLS IT: an integral float is written N.0 in CUE (an integer literal
        is not a float there) and in JSON Schema (python prints floats that way; cog's unwrapJSONNumber turns the
        literal `3` into an int64 and `3.0` into a float64)"""
        r = self.rng
        dotted = self.fmt in ("cue", "jsonschema")
        c = r.random()
        if c < 0.25:
            x = Decimal(r.randint(-50, 50))            # integral value of a float field
        elif c < 0.35:
            if t["w"] == "float32":      # a float32 prints back at most 6 significant digits
                x = Decimal(r.choice(["150000.5", "0.00025", "-2500000"]))
            else:
                x = Decimal(r.choice(["1500000.5", "0.00025", "12345678.25", "-2500000"]))
        else:
            x = Decimal(r.randint(-9999, 9999)) / Decimal(r.choice([2, 4, 8, 10, 100]))
        if x == x.to_integral_value():
            x = Decimal(str(int(x)) + ".0") if dotted else Decimal(int(x))
        return x

    def v_string(self):
        return self.rng.choice(["", "hello", "now-6h", "a b", "x", "dark-orange", 'say "hi"', "back\\slash", "7", "true", "café"])

    def t_enum(self):
        r = self.rng
        if r.random() < 0.7:
            return {"k": "enum", "vals": r.sample(["red", "green", "blue", "up", "down", "on", "off", "a", "b"], r.randint(2, 4))}
        return {"k": "enum", "vals": sorted(r.sample(range(0, 9), r.randint(2, 4)))}

    def t_const(self):
        r = self.rng
        c = r.random()
        if c < 0.6:
            t = {"k": "const", "v": r.choice(["k1", "fixed", "v", "kind-a", "x"])}
            if self.fmt == "openapi":
                t["enum1"] = r.random() < 0.35      # False: the idiom cog's OpenAPI front-end recognises, pattern ^v$
            return t
        if c < 0.85:
            t = {"k": "const", "v": r.randint(0, 9)}
            if self.fmt == "openapi":
                t["enum1"] = True        # OpenAPI 3.0 has no `const`: an enumeration of one value
            return t
        v = r.choice([True, False])
        if self.fmt == "openapi":
            return {"k": "const", "v": "yes" if v else "no", "enum1": True}
        return {"k": "const", "v": v}

    def union(self):
        r = self.rng
        kinds = r.sample(["string", "int", "bool", "float"], 2)
        if "int" in kinds and "float" in kinds:
            kinds = ["string", r.choice(["int", "float"])]
        out = []
        for k in kinds:
            out.append({"string": {"k": "string"}, "int": {"k": "int", "w": "int64"}, "bool": {"k": "bool"},
                        "float": {"k": "float", "w": "float64"}}[k])
        if r.random() < 0.25:
            out.append({"k": "array", "of": {"k": "string"}})
        return {"k": "union", "of": out}

    def v_of(self, t):
        k = t["k"]
        r = self.rng
        if k == "bool":
            return r.random() < 0.5
        if k == "int":
            return self.v_int(t)
        if k == "float":
            return self.v_float(t)
        if k == "string":
            return self.v_string()
        if k == "enum":
            return r.choice(t["vals"])
        if k == "array":
            return [self.v_of(t["of"]) for _ in range(r.randint(1, 3))]
        raise ValueError(k)

    # ---- fields
    def plain_struct(self, depth):
        """a named struct whose own fields carry defaults (target of struct defaults / required references)"""
        r = self.rng
        name = self.fresh("S")
        fields = []
        for _ in range(r.randint(2, 4)):
            fields.append(self.field(depth + 1, {f["name"] for f in fields}, kinds=("bool", "int", "float", "string", "enum", "list", "plain", "const", "union")))
        fields.sort(key=lambda f: f["name"])
        self.defs.append({"name": name, "t": {"k": "struct", "fields": fields}})
        return name

    def field(self, depth, taken, kinds=None):
        r = self.rng
        pool = ["a", "b", "c", "d", "e", "n", "name", "tags", "meta", "size", "opt", "val", "x", "y", "z", "count",
                "items", "from", "mode", "color", "level"]
        name = r.choice([n for n in pool if n not in taken] or ["f%d" % len(taken)])
        allk = ["bool", "int", "float", "string", "enum", "list", "const", "plain", "union"]
        if depth < 2:
            allk += ["struct", "structreq"]
        if self.fmt == "cue":
            allk += ["enumref", "alias"]
        kind = r.choice([k for k in allk if kinds is None or k in kinds or k in ("struct", "structreq", "enumref", "alias") and kinds is None])
        f = {"name": name, "req": r.random() < 0.6, "null": False}
        if kind == "bool":
            f["t"] = {"k": "bool"}
        elif kind == "int":
            f["t"] = self.t_int()
        elif kind == "float":
            f["t"] = self.t_float()
        elif kind == "string":
            f["t"] = {"k": "string"}
        elif kind == "enum":
            f["t"] = self.t_enum()
        elif kind == "list":
            f["t"] = {"k": "array", "of": r.choice([{"k": "string"}, {"k": "string"}, {"k": "int", "w": "int64"},
                                                    {"k": "float", "w": "float64"}, {"k": "bool"}])}
            if self.clean:
                f["t"]["of"] = {"k": "string"}
        elif kind == "const":
            f["t"] = self.t_const()
            return f
        elif kind == "plain":
            # fields WITHOUT a default: what the constructors do with them must not disturb the others
            f["t"] = r.choice([{"k": "string"}, {"k": "int", "w": "int64"}, {"k": "bool"}, {"k": "array", "of": {"k": "string"}},
                               {"k": "map", "of": {"k": "string"}}, self.t_enum()])
            return f
        elif kind == "union":
            f["t"] = self.union()
            b = r.choice([x for x in f["t"]["of"]])
            f["default"] = self.v_of(b)
            f["dkind"] = "union"
            return f
        elif kind == "enumref":
            name_e = self.fresh("E")
            et = self.t_enum()
            self.defs.append({"name": name_e, "t": et})
            f["t"] = {"k": "ref", "name": name_e}
            if r.random() < 0.8:
                f["default"] = r.choice(et["vals"])
                f["dkind"] = "enumref"
            return f
        elif kind == "alias":
            name_n = self.fresh("N")
            at = r.choice([{"k": "string"}, {"k": "int", "w": "int64"}])
            self.defs.append({"name": name_n, "t": at})
            f["t"] = {"k": "ref", "name": name_n}
            f["default"] = self.v_of(at)
            f["dkind"] = "alias"
            return f
        elif kind in ("struct", "structreq"):
            sname = self.plain_struct(depth)
            st = [d for d in self.defs if d["name"] == sname][0]["t"]
            if kind == "structreq" or self.fmt != "cue":
                if self.fmt != "cue" and kind == "struct":
                    # inline object with a `default` keyword (JSON Schema / OpenAPI have no other way to say it)
                    self.defs = [d for d in self.defs if d["name"] != sname]
                    f["t"] = st
                    ov = self.overrides(st)
                    if ov:
                        f["default"] = ov
                        f["dkind"] = "struct"
                    return f
                f["t"] = {"k": "ref", "name": sname}
                f["req"] = True if kind == "structreq" else f["req"]
                return f
            f["t"] = {"k": "ref", "name": sname}
            ov = self.overrides(st)
            if ov:
                f["default"] = ov
                f["dkind"] = "struct"
            return f
        # scalar-ish kinds get a default most of the time
        if r.random() < 0.85:
            f["default"] = self.v_of(f["t"])
            f["dkind"] = {"bool": "bool", "int": "int", "float": "float", "string": "string", "enum": "enum", "list": "list"}[kind]
        return f

    def overrides(self, st):
        r = self.rng
        cands = [g for g in st["fields"] if g["t"]["k"] in ("bool", "int", "float", "string", "enum", "array", "union")]
        if self.clean:      # a struct default over an OPTIONAL enum member does not compile in Go (known C10 finding)
            cands = [g for g in cands if not (g["t"]["k"] == "enum" and not g["req"])]

        ov = {}
        chosen = r.sample(cands, min(len(cands), r.randint(1, 2)))
        if self.fmt == "openapi":
            # kin-openapi validates `default` against the schema when loading: required members must be there
            chosen += [g for g in cands if g["req"] and g not in chosen]
            if any(g["req"] and g not in cands for g in st["fields"]):
                return {}
        for g in chosen:
            t = g["t"]
            if t["k"] == "union":
                ov[g["name"]] = self.v_of(r.choice(t["of"]))
            else:
                ov[g["name"]] = self.v_of(t)
        return ov

    def schema(self, pkg):
        r = self.rng
        self.defs, self.names = [], {"Root"}
        fields = []
        for _ in range(r.randint(3, 7)):
            fields.append(self.field(0, {f["name"] for f in fields}))
        fields.sort(key=lambda f: f["name"])
        self.defs.append({"name": "Root", "t": {"k": "struct", "fields": fields}})
        return {"pkg": pkg, "root": "Root", "defs": sorted(self.defs, key=lambda d: d["name"]), "fmt": self.fmt}


# ------------------------------------------------------------------ declared defaults
def struct_nodes(schema):
    """every struct of the schema: named definitions ("Root") and inline struct fields ("Root.in": cog names
    them <Pkg><Parent><Field> in upper camel case) -> {owner key: struct type}"""
    out = {}

    def walk(key, t):
        out[key] = t
        for f in t["fields"]:
            if f["t"]["k"] == "struct":
                walk(key + "." + f["name"], f["t"])

    for d in schema["defs"]:
        if d["t"]["k"] == "struct":
            walk(d["name"], d["t"])
    return out


def object_name(schema, key, objects):
    """IR object name of a struct node, looked up in the harness' object summary"""
    if "." not in key:
        return key
    suffix = "".join(p[0].upper() + p[1:] for p in key.split("."))
    c = [o["name"] for o in objects if o["name"].lower().endswith(suffix.lower()) and o["name"] != key]
    return c[0] if c else None


def declared(schema, key):
    t = struct_nodes(schema)[key]
    out = []
    for f in t["fields"]:
        if f["t"]["k"] == "const":
            out.append({"field": f["name"], "kind": "constenum" if f["t"].get("enum1") else "const", "value": f["t"]["v"]})
        elif "default" in f:
            out.append({"field": f["name"], "kind": f["dkind"], "value": f["default"]})
    return out


def all_declared(schema):
    return {k: declared(schema, k) for k in struct_nodes(schema)}


# ------------------------------------------------------------------ rendering
def _jnum(v):
    return srcgen._JsonDecimal(v) if isinstance(v, Decimal) else v


def _jval(v):
    if isinstance(v, list):
        return [_jval(x) for x in v]
    if isinstance(v, dict):
        return {k: _jval(x) for k, x in v.items()}
    return _jnum(v)


def _js_field(f, refprefix, openapi):
    t = f["t"]
    if t["k"] == "struct":
        o = _js_struct(t, refprefix, openapi)
    elif t["k"] == "const" and openapi and not t.get("enum1"):
        o = {"type": "string", "pattern": "^%s$" % t["v"]}
    else:
        o = srcgen._js_type(t, refprefix, openapi, False)
    if "default" in f and "$ref" not in o:
        o = dict(o, default=_jval(f["default"]))
    if f.get("null"):
        o = dict(o, nullable=True) if openapi else {"oneOf": [o, {"type": "null"}]}
    return o


def _js_struct(t, refprefix, openapi):
    props, req = {}, []
    for f in t["fields"]:
        props[f["name"]] = _js_field(f, refprefix, openapi)
        if f["req"]:
            req.append(f["name"])
    o = {"type": "object", "properties": props}
    if req:
        o["required"] = req
    return o


def _js_def(t, refprefix, openapi):
    if t["k"] == "struct":
        return _js_struct(t, refprefix, openapi)
    return srcgen._js_type(t, refprefix, openapi, False)


def render_jsonschema(schema):
    defs = {d["name"]: _js_def(d["t"], "#/definitions/", False) for d in schema["defs"]}
    return json.dumps({"$schema": "http://json-schema.org/draft-07/schema#", "$ref": "#/definitions/" + schema["root"],
                       "definitions": defs}, indent=1)


def render_openapi(schema):
    defs = {d["name"]: _js_def(d["t"], "#/components/schemas/", True) for d in schema["defs"]}
    return json.dumps({"openapi": "3.0.0", "info": {"title": schema["pkg"], "version": "0.0"}, "paths": {},
                       "components": {"schemas": defs}}, indent=1)


def _cue_val(v, as_float=False):
    if isinstance(v, bool):
        return "true" if v else "false"
    if isinstance(v, Decimal):
        s = format(v, "f")
        return s if "." in s else s + ".0"
    if isinstance(v, int):
        return str(v) + (".0" if as_float else "")
    if isinstance(v, str):
        return json.dumps(v, ensure_ascii=False)
    if isinstance(v, list):
        return "[" + ", ".join(_cue_val(x, as_float) for x in v) + "]"
    if isinstance(v, dict):
        return "{" + ", ".join("%s: %s" % (k, _cue_val(x)) for k, x in v.items()) + "}"
    raise TypeError(type(v))


def _cue_field_type(f, ind):
    t = f["t"]
    k = t["k"]
    has = "default" in f
    d = f.get("default")
    if k == "struct":
        base = _cue_struct(t, ind)
    else:
        base = srcgen._cue_type(t, ind)
    if not has:
        return base, srcgen._cue_attr(t)
    if k == "enum":
        parts = [("*" if v == d else "") + json.dumps(v) for v in t["vals"]]
        return " | ".join(parts), srcgen._cue_attr(t)
    if f["dkind"] == "enumref":
        return "%s & (*%s | _)" % (base, _cue_val(d)), ""
    if f["dkind"] == "struct":
        return "%s | *%s" % (base, _cue_val(d)), ""
    if k == "float":
        return "%s | *%s" % (base if " & " not in base else "(" + base + ")", _cue_val(d, True)), ""
    if k == "array":
        return "%s | *%s" % (base, _cue_val(d, t["of"]["k"] == "float")), ""
    if k == "int" and " & " in base:
        return "(%s) | *%s" % (base, _cue_val(d)), ""
    return "%s | *%s" % (base, _cue_val(d)), ""


def _cue_struct(t, ind):
    pad = "\t" * ind
    lines = []
    for f in t["fields"]:
        ft, attr = _cue_field_type(f, ind + 1)
        if f.get("null"):
            ft = "(" + ft + ") | null"
        lines.append("%s\t%s%s: %s%s" % (pad, f["name"], "" if f["req"] else "?", ft, attr))
    return "{\n" + "\n".join(lines) + "\n" + pad + "}"


def render_cue(schema):
    body = []
    for d in schema["defs"]:
        if d["t"]["k"] == "struct":
            ct = _cue_struct(d["t"], 0)
        else:
            ct = srcgen._cue_type(d["t"], 0)
        body.append("#%s: %s%s\n" % (d["name"], ct, srcgen._cue_attr(d["t"])))
    return "package %s\n\n" % schema["pkg"] + "\n".join(body)


def render(schema, fmt):
    return {"jsonschema": render_jsonschema, "openapi": render_openapi, "cue": render_cue}[fmt](schema)


# ------------------------------------------------------------------ auxiliary schema: one definition per field type
def aux_schema(schema, fmt):
    """the same definitions WITHOUT defaults plus, for every field of every struct (named or inline), a
    definition `D_<struct>_<field>` holding the field's type: the schema language's validator is asked whether
    it accepts a default by validating the value against that definition."""
    import copy
    s = copy.deepcopy(schema)
    names = {}

    def strip(t):
        if t["k"] == "struct":
            for f in t["fields"]:
                f.pop("default", None)
                f.pop("dkind", None)
                strip(f["t"])

    for d in s["defs"]:
        strip(d["t"])
    extra = []

    def walk(owner, t):
        for f in t["fields"]:
            an = "D_%s_%s" % (owner, f["name"])
            names[(owner, f["name"])] = an
            extra.append({"name": an, "t": f["t"]})
            if f["t"]["k"] == "struct":
                walk(owner + "." + f["name"], f["t"])

    for d in list(s["defs"]):
        if d["t"]["k"] == "struct":
            walk(d["name"], d["t"])
    for e in extra:
        e["name"] = e["name"].replace(".", "_")
    names = {k: v.replace(".", "_") for k, v in names.items()}
    s["defs"] = s["defs"] + extra
    return render(s, fmt), names


def leaves(schema, key, decl, names):
    """[(aux definition, document text)] to validate for one declared default of struct node `key`"""
    t = struct_nodes(schema)[key]
    f = [g for g in t["fields"] if g["name"] == decl["field"]][0]
    if decl["kind"] != "struct":
        return [(names[(key, f["name"])], srcgen.dumps(decl["value"]))]
    ft = f["t"]
    owner = ft["name"] if ft["k"] == "ref" else key + "." + f["name"]
    return [(names[(owner, k)], srcgen.dumps(v)) for k, v in decl["value"].items()]
