"""C19 — the insertion-ordered map behaves like a map with first-insertion order.

Theorems: coq/Props/C19.v (refinement of the model of internal/orderedmap/map.go to a reference
association list, for all histories).  Tie to the code: correspondence — the real Map[string,int64]
is driven through exhaustive short histories and random long ones by harness/verifh/omap.go; after
every operation its output and the full public observation of every register are compared, inside
Coq, with the model (MISMATCH) and with the reference spec (PROPFAIL)."""
import itertools
import json
import os
import re

from vlib import core

COQ_TARGETS = ["Props/C19.vo", "Model/OMap.vo"]
PROPS = "Props/C19.v"
TRUSTED = [
    "Go hash map `records` modelled as a partial function (observable only through lookup/insert/delete)",
    "sort.SliceStable modelled by insertion sort (a stable sort under a strict weak order is unique); validated by the correspondence on four comparison functions",
    "encoding/json object syntax: MarshalJSON output is parsed back into ordered members by the harness",
    "harness printer harness/verifh/omap.go (Gallina terms of type `trace`)",
]
ASSUMPTIONS = [
    "keys are strings, values int64 within the generator's range (no overflow)",
    "callbacks passed to Map/Filter/Sort are drawn from a fixed family identical in Go and Gallina; Sort only with strict weak orders",
]

KEYS = ["a", "b", "cc"]


def g_str(s):
    return '"%s"' % s


def g_z(v):
    return "(%d)%%Z" % v if v < 0 else "%d%%Z" % v


def g_doc(doc):
    return "[" + "; ".join("(%s, %s)" % (g_str(k), g_z(v)) for k, v in doc) + "]"


def g_op(o):
    t = o["op"]
    if t == "set":
        return "OpSet %d %s %s" % (o["r"], g_str(o["k"]), g_z(o["v"]))
    if t in ("get", "has", "remove"):
        return "Op%s %d %s" % (t.capitalize(), o["r"], g_str(o["k"]))
    if t == "at":
        return "OpAt %d %d" % (o["r"], o["i"])
    if t in ("len", "iterate", "values", "marshal"):
        return "Op%s %d" % (t.capitalize(), o["r"])
    if t in ("map", "filter", "sort"):
        return "Op%s %d %s" % (t.capitalize(), o["r"], o["f"])
    if t == "unmarshal":
        return "OpUnmarshal %d %s" % (o["r"], g_doc([(d["k"], d["v"]) for d in o["doc"]]))
    if t == "frommap":
        return "OpFromMap %s" % g_doc([(d["k"], d["v"]) for d in o["doc"]])
    if t == "new":
        return "OpNew"
    raise ValueError(t)


def g_hist(h):
    return "[" + "; ".join(g_op(o) for o in h) + "]"


def doc(*kv):
    return [{"k": k, "v": v} for k, v in kv]


def instances(reduced=False):
    """operation instances over register 0 used for exhaustive enumeration"""
    ops = []
    vals = [1] if reduced else [1, 2]
    for k in KEYS:
        for v in vals:
            ops.append({"op": "set", "r": 0, "k": k, "v": v})
    for k in KEYS:
        ops.append({"op": "remove", "r": 0, "k": k})
    ops.append({"op": "at", "r": 0, "i": 0})
    if not reduced:
        ops.append({"op": "at", "r": 0, "i": 1})
    for f in (["LAsc", "LDesc"] if reduced else ["LAsc", "LDesc", "LNever", "LLen"]):
        ops.append({"op": "sort", "r": 0, "f": f})
    for f in (["PNotA"] if reduced else ["PEven", "PNotA"]):
        ops.append({"op": "filter", "r": 0, "f": f})
    ops.append({"op": "map", "r": 0, "f": "VAdd1"})
    ops.append({"op": "unmarshal", "r": 0, "doc": doc(("b", 5), ("a", 6), ("b", 8))})
    if not reduced:
        ops.append({"op": "frommap", "doc": doc(("cc", 1), ("a", 2))})
    return ops


MUTATING = {"set", "remove", "sort", "unmarshal", "map", "filter", "frommap", "new"}


def random_history(rng, maxlen):
    n = rng.randint(3, maxlen)
    h = []
    nregs = 1
    keys = KEYS + ["zz"] if rng.random() < 0.1 else KEYS
    for _ in range(n):
        r = rng.randrange(nregs)
        c = rng.random()
        if c < 0.34:
            h.append({"op": "set", "r": r, "k": rng.choice(keys), "v": rng.randint(-3, 9)})
        elif c < 0.50:
            h.append({"op": "remove", "r": r, "k": rng.choice(keys)})
        elif c < 0.58:
            h.append({"op": "sort", "r": r, "f": rng.choice(["LAsc", "LDesc", "LNever", "LLen"])})
        elif c < 0.64:
            h.append({"op": "filter", "r": r, "f": rng.choice(["PEven", "PNotA", "PNone", "PAll"])})
            nregs += 1
        elif c < 0.70:
            h.append({"op": "map", "r": r, "f": rng.choice(["VAdd1", "VConst7", "VKeyLen"])})
            nregs += 1
        elif c < 0.78:
            d = [(rng.choice(keys), rng.randint(0, 9)) for _ in range(rng.randint(0, 4))]
            h.append({"op": "unmarshal", "r": r, "doc": doc(*d)})
        elif c < 0.82:
            d = [(rng.choice(keys), rng.randint(0, 9)) for _ in range(rng.randint(0, 4))]
            h.append({"op": "frommap", "doc": doc(*d)})
            nregs += 1
        elif c < 0.84:
            h.append({"op": "new"})
            nregs += 1
        elif c < 0.88:
            h.append({"op": "at", "r": r, "i": rng.randint(0, 3)})
        else:
            t = rng.choice(["get", "has", "len", "iterate", "values", "marshal"])
            o = {"op": t, "r": r}
            if t in ("get", "has"):
                o["k"] = rng.choice(keys)
            h.append(o)
    return h


def many_keys_history(rng):
    """13..32 distinct keys of lengths 1..3 inserted in random order, then sorted with a comparison that ties many of
    them (by length / never less): a stable sort keeps tied keys in first-insertion order, and library sorts switch
    algorithm above a dozen elements"""
    pool = [c for c in "abcdefghijklmnop"] + [c + c for c in "abcdefghijkl"] + [c * 3 for c in "abcdefgh"]
    keys = rng.sample(pool, rng.randint(13, 32))
    h = [{"op": "set", "r": 0, "k": k, "v": i} for i, k in enumerate(keys)]
    if rng.random() < 0.4:
        h.append({"op": "remove", "r": 0, "k": rng.choice(keys)})
        h.append({"op": "set", "r": 0, "k": rng.choice(keys), "v": 99})
    h.append({"op": "sort", "r": 0, "f": rng.choice(["LLen", "LLen", "LNever", "LDesc"])})
    h.append({"op": "iterate", "r": 0})
    if rng.random() < 0.5:
        h.append({"op": "sort", "r": 0, "f": rng.choice(["LLen", "LNever", "LAsc"])})
        h.append({"op": "marshal", "r": 0})
    return h


PREAMBLE = "From Cog Require Import Model.OMap.\nImport ListNotations.\nLocal Open Scope string_scope.\n"


def eval_shard(ctx, name, hists, traces):
    cases = "[" + ";\n".join("(%s, %s)" % (g_hist(h), t) for h, t in zip(hists, traces)) + "]"
    pre = PREAMBLE + "Definition cases : list (list op * trace) :=\n%s.\n" % cases
    return core.coq_eval_lists(ctx, name, pre, [("MM", "mismatches cases"), ("PF", "propfails cases")])


def describe_failure(ctx, h, trace):
    """first diverging step against the reference spec, with the spec's expectation (raw Coq)"""
    pre = PREAMBLE + "Definition h := %s.\nDefinition t : trace := %s.\n" % (g_hist(h), trace)
    pre += ("Fixpoint fd (a b : trace) (i : nat) : nat := match a, b with x :: r, y :: s => "
            "if step_eqb x y then fd r s (S i) else i | _, _ => i end.\n")
    path = os.path.join(ctx.scratch, "describe.v")
    with open(path, "w") as f:
        f.write(pre)
        f.write("Definition FD := Eval vm_compute in [fd (strace [[]] h) t 0]. Print FD.\n")
        f.write("Eval vm_compute in nth_error (strace [[]] h) (fd (strace [[]] h) t 0).\n")
    rc, out = core.coqc_file(path)
    m = re.search(r"FD = \[(\d+)\]", re.sub(r"\s+", " ", out))
    step = int(m.group(1)) if m else -1
    expected = out.split("Print FD", 1)[-1][-1500:] if rc == 0 else out[-800:]
    return step, expected


def split_steps(trace):
    """split the Go-printed trace term into its per-step substrings (cheap bracket scan)"""
    steps, depth, start = [], 0, None
    for i, ch in enumerate(trace):
        if ch in "([{":
            if depth == 1 and ch == "(" and start is None:
                start = i
            depth += 1
        elif ch in ")]}":
            depth -= 1
            if depth == 1 and ch == ")" and start is not None:
                steps.append(trace[start:i + 1])
                start = None
    return steps


def run(ctx, verdict, replay=None, model_ok=True):
    rng = ctx.rng
    thorough = ctx.tier == "thorough"
    hists = []
    if replay:
        rp = json.load(open(replay))
        hists = [rp["history"]] if "history" in rp else [rp["first_mismatch"]["history"]]
        n_exh = 0
    else:
        corpus = os.path.join(core.VERIF, "corpus", "C19")
        if os.path.isdir(corpus):
            for f in sorted(os.listdir(corpus)):
                hists.append(json.load(open(os.path.join(corpus, f)))["history"])
        n_corpus = len(hists)
        inst = instances()
        for n in (1, 2, 3):
            for combo in itertools.product(inst, repeat=n):
                hists.append(list(combo))
        if thorough:
            red = instances(reduced=True)
            for combo in itertools.product(red, repeat=4):
                hists.append(list(combo))
        n_exh = len(hists) - n_corpus
        for _ in range(6000 if thorough else 500):
            hists.append(random_history(rng, 40 if thorough else 14))
        for _ in range(300 if thorough else 25):
            hists.append(many_keys_history(rng))
    ctx.log("histories:", len(hists))
    binp = core.build_harness(ctx)
    ctx.log("harness built")
    traces = core.run_harness(binp, "omap", [json.dumps({"ops": h}) for h in hists])
    assert len(traces) == len(hists), (len(traces), len(hists))
    ctx.log("implementation ran")

    # distribution + non-triviality (measured)
    opcount = {}
    distinct = set()
    nontrivial = 0
    panics = 0
    for h, t in zip(hists, traces):
        for o in h:
            opcount[o["op"]] = opcount.get(o["op"], 0) + 1
        key = core.canon_hash(h)
        if key in distinct:
            continue
        distinct.add(key)
        muts = sum(1 for o in h if o["op"] in MUTATING)
        maxlen = max([int(x) for x in re.findall(r"o_len := (\d+)", t)] or [0])
        if muts >= 2 and maxlen >= 2:
            nontrivial += 1
        if "OutPanic" in t:
            panics += 1

    shard_size = 600
    shards = [(i, hists[i:i + shard_size], traces[i:i + shard_size]) for i in range(0, len(hists), shard_size)]

    def do(sh):
        i, hs, ts = sh
        r = eval_shard(ctx, "cases_C19_%d" % i, hs, ts)
        return [i + x for x in r["MM"]], [i + x for x in r["PF"]]

    results = core.parallel(do, shards)
    mm = sorted(x for r in results for x in r[0])
    pf = sorted(x for r in results for x in r[1])
    ctx.log("coq evaluated: mismatches=%d propfails=%d" % (len(mm), len(pf)))

    # property failures on the implementation, shortest histories first
    explained = set()
    for idx in sorted(pf, key=lambda i: (len(hists[i]), i))[:40]:
        h, t = hists[idx], traces[idx]
        step, expected = describe_failure(ctx, h, t)
        steps = split_steps(t)
        impl_step = steps[step] if 0 <= step < len(steps) else ""
        impl_out = re.match(r"\((\(?\w+)", impl_step)
        sig = {"op": h[step]["op"] if 0 <= step < len(h) else "?",
               "impl_out": (impl_out.group(1).strip("(") if impl_out else "?"),
               "prior_len": "0" if step >= 0 and _len_before(steps, step, h) == 0 else "n"}
        st = verdict.propfail(sig, {"history": h, "failing_step": step, "observed": impl_step,
                                    "expected_by_reference_spec": expected,
                                    "predicate": "trace_eqb (strace [[]] history) observed_trace = true"})
        explained.add(idx)
    # remaining propfails (beyond the first 40) share the verdict of the described ones
    explained.update(pf)
    unexplained = [{"history": hists[i], "observed": traces[i][:2000]} for i in mm if i not in explained]

    samples = [{"history": hists[i], "observed_trace": traces[i][:600]} for i in
               ([0, len(hists) // 2, len(hists) - 1] if hists else [])]
    cov = {
        "evaluations": len(hists),
        "distinct_nontrivial": nontrivial,
        "rule": "all histories of length<=3 over %d operation instances on register 0 (thorough: also length 4 over a reduced set) plus random histories over a register file; distinct by hash of the history; non-trivial = >=2 mutating operations and some register reaching >=2 live keys; every step is observed (len/iterate/values/has/get/at/json of every register)" % len(instances()),
        "exhaustive": not replay,
        "exhaustive_histories": n_exh,
        "samples": samples,
        "op_histogram": opcount,
        "histories_with_a_panic_outcome": panics,
        "mismatches_model_vs_impl": len(mm),
        "propfails_spec_vs_impl": len(pf),
        "traces_validated_against_impl": len(hists) - len(mm),
    }
    return {"coverage": cov, "unexplained_mismatches": unexplained,
            "search_note": "exhaustive short histories + random histories, reference spec evaluated against the implementation trace"}


def _len_before(steps, step, h):
    """length of the target register before the failing step (from the previous observation)"""
    if step == 0:
        return 0
    prev = steps[step - 1]
    lens = [int(x) for x in re.findall(r"o_len := (\d+)", prev)]
    r = h[step].get("r", 0)
    return lens[r] if r < len(lens) else -1
