"""C09 — a builder option sets exactly its target; invalid input is reported, valid input never fails.

Theorems: coq/Props/C09.v over coq/Model/BuilderEval.v (Go builders: builder.tmpl / options.tmpl / assignment.tmpl /
nilcheck.tmpl as functions of the builder IR after veneers and GenerateBuilderNilChecks) and
coq/Model/PyBuilderEval.v (Python builders).
Tie to the code: correspondence.  Construct-grammar schemas (+ random builder veneers) go through the real cog
(overlay-built from the working tree: harness/verifh_bld prints the post-chain schemas and the builder IR of the Go
and of the Python context); the generated Go builders are compiled and driven by reflection (drivers/go_bld), the
generated Python builders are imported and driven (drivers/python_bld): default objects, the object under
construction after the constructor and after every option call, builder.errors, Build() / raised exception.
MISMATCH = the model's trace (evaluated inside Coq) differs from the real one.  PROPFAIL = the property itself,
evaluated on the real output only (vlib/gencode_bld.py spec_*): exactness (frame + target), constants,
invalid reported, valid never fails."""
import json
import os
import re
from decimal import Decimal

from gen import srcgen
from vlib import core, gencode, gencode_bld as gb
from vlib import c09lib

COQ_TARGETS = ["Props/C09.vo", "Model/BuilderCheck.vo"]
PROPS = "Props/C09.v"
TRUSTED = [
    "hand-written Gallina model of the generated builder code (coq/Model/BuilderEval.v Go, PyBuilderEval.v Python) over the value model and Validate() model of coq/Model/GoSem*.v; the constructors of the generated types (New<T>(), <T>()) are an input of the model (C10's subject): the correspondence supplies what the real constructors return",
    "the fragment is explicit (BuilderEval.v header): field paths with an optional trailing string map index, argument / constant / one-level envelope values, direct / append / index, builders under arrays and string-keyed maps; composable slots, type hints, factories, builder properties are Unmodelled and skipped",
    "harness harness/verifh_bld (Gallina + JSON printers of the IR), drivers drivers/go_bld (reflection; builder.internal and builder.errors read through unsafe), drivers/python_bld, argument generator and property evaluation vlib/gencode_bld.py, vlib/c09lib.py",
    "numbers within 15 significant digits, integers within 2^53; datetimes in UTC; ASCII names",
]
ASSUMPTIONS = [
    "builders are those cog derives (FromAST + the option veneers rename / omit / unfold_boolean / struct_fields_as_options / struct_fields_as_arguments / array_to_append / map_to_index / duplicate) on schemas of the construct grammar",
    "`valid never fails` is judged per argument: an error Build() reports for a field the call sequence never assigned is not attributed to the argument",
]


def run(ctx, verdict, replay=None, model_ok=True):
    return c09lib.run(ctx, verdict, replay=replay, model_ok=model_ok)
