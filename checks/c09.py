"""C09 — a builder option sets exactly its target; invalid input is reported, valid input never fails.

Theorems: coq/Props/C09.v over coq/Model/BuilderEval.v (Go builders: builder.tmpl / options.tmpl / assignment.tmpl /
nilcheck.tmpl as functions of the builder IR after veneers and GenerateBuilderNilChecks) and
coq/Model/PyBuilderEval.v (Python builders).
Tie to the code: correspondence.  Construct-grammar schemas (+ random builder veneers) go through the real cog
(overlay-built from the working tree: harness/verifh_bld prints the post-chain schemas and the builder IR of the Go
and of the Python context); the generated Go builders are compiled and driven by reflection (drivers/go_bld), the
generated Python builders are imported and driven (drivers/python_bld): default objects, the object under
construction after the constructor and after every option call, builder.errors, Build() / raised exception.
MISMATCH = the model's trace (evaluated inside Coq) differs from the real one.  PROPFAIL = the property itself,
evaluated on the real output only (vlib/gencode_bld.py spec_apply / same): exactness (frame + target), constants,
invalid reported, valid never fails."""
import copy
import json
import os
import re

from gen import srcgen
from vlib import core, gencode, gencode_bld as gb

COQ_TARGETS = ["Props/C09.vo", "Model/BuilderCheck.vo"]
PROPS = "Props/C09.v"
TRUSTED = [
    "hand-written Gallina model of the generated builder code (coq/Model/BuilderEval.v Go, PyBuilderEval.v Python) over the value model and Validate() model of coq/Model/GoSem*.v; the constructors of the generated types (New<T>(), <T>()) are an input of the model (C10's subject): the correspondence supplies what the real constructors return",
    "the fragment is explicit (BuilderEval.v header): field paths with an optional trailing string map index, argument / constant / one-level envelope values, direct / append / index, builders under arrays and string-keyed maps; composable slots, type hints, factories, builder properties are Unmodelled and skipped",
    "harness harness/verifh_bld (Gallina + JSON printers of the IR), drivers drivers/go_bld (reflection; builder.internal and builder.errors read through unsafe), drivers/python_bld, argument generator and property evaluation vlib/gencode_bld.py",
    "numbers within 15 significant digits, integers within 2^53; datetimes in UTC; ASCII names",
]
ASSUMPTIONS = [
    "builders are those cog derives (FromAST + the option veneers rename / omit / unfold_boolean / struct_fields_as_options / struct_fields_as_arguments / array_to_append / map_to_index / duplicate on random schemas of the construct grammar; plus the targeted scenarios of vlib/gencode_bld.py: add_option with multi-depth assignments under nested optional structs, add_assignment constants shared by several options, array_to_append + disjunction_as_options on lists of unions)",
    "`valid never fails` is judged per argument: an error Build() reports for a field the call sequence never assigned is not attributed to the argument",
]

FAULTS = ("bound", "elem", "alias", "nested", "nested-default")
CAUSE = {"bound": "direct-constraint", "elem": "constraint-on-collection-element", "alias": "constraint-behind-scalar-alias",
         "nested": "failing-nested-builder", "nested-default": "failing-nested-builder"}


# ---------------------------------------------------------------------------------------------- schemas + veneers
def gen_veneers(rng, schema):
    """random option veneers for the struct definitions of a Src schema (selectors `Object.field`)"""
    defs = {d["name"]: d["t"] for d in schema["defs"]}
    rules = []
    for d in schema["defs"]:
        if d["t"]["k"] != "struct":
            continue
        names = {f["name"] for f in d["t"]["fields"]}
        for f in d["t"]["fields"]:
            sel = {"by_name": "%s.%s" % (d["name"], f["name"])}
            t = f["t"]
            k = t["k"]
            c = rng.random()
            if k in ("ref", "struct"):
                inner = defs.get(t["name"]) if k == "ref" else t
                if inner is None or inner["k"] != "struct":
                    continue
                inames = {g["name"] for g in inner["fields"]}
                if c < 0.25 and not (inames & names):
                    rules.append({"struct_fields_as_options": sel})
                    names |= inames
                elif c < 0.45:
                    rules.append({"struct_fields_as_arguments": sel})
            elif k == "array":
                if c < 0.4:
                    rules.append({"array_to_append": sel})
                elif c < 0.5 and t["of"]["k"] in ("ref", "struct"):
                    rules.append({"array_to_append": sel})
                    rules.append({"struct_fields_as_arguments": sel})
            elif k == "map":
                if c < 0.4:
                    rules.append({"map_to_index": sel})
            elif k == "bool":
                if c < 0.4:
                    rules.append({"unfold_boolean": dict(sel, true_as="enable_" + f["name"], false_as="disable_" + f["name"])})
            else:
                if c < 0.08:
                    rules.append({"rename": dict(sel, **{"as": "with_" + f["name"]})})
                elif c < 0.14:
                    rules.append({"duplicate": dict(sel, **{"as": "also_" + f["name"]})})
                elif c < 0.17:
                    rules.append({"omit": sel})
    return rules


def add_defaults(rng, text, fmt):
    """scalar defaults (which the construct grammar does not carry): `default` members on string / boolean
    (and, for OpenAPI, numeric) properties of the rendered JSON Schema / OpenAPI text"""
    if fmt not in ("jsonschema", "openapi"):
        return text
    doc = srcgen.loads(text)

    def walk(node):
        if isinstance(node, dict):
            props = node.get("properties")
            if isinstance(props, dict):
                for p in props.values():
                    if not isinstance(p, dict) or "default" in p or "const" in p or "enum" in p or rng.random() > 0.3:
                        continue
                    ty = p.get("type")
                    if ty == "string" and "format" not in p:
                        n = max(int(p.get("minLength", 0)), 1)
                        if "maxLength" in p and int(p["maxLength"]) < n:
                            continue
                        p["default"] = "d" * n
                    elif ty == "boolean":
                        p["default"] = rng.random() < 0.5
                    elif ty == "integer" and fmt == "openapi":
                        lo = p.get("minimum", 0)
                        p["default"] = int(lo) + (1 if p.get("exclusiveMinimum") is True else 0)
            for v in node.values():
                walk(v)
        elif isinstance(node, list):
            for v in node:
                walk(v)
    walk(doc)
    return srcgen.dumps(doc)


# ---------------------------------------------------------------------------------------------- jobs
class Plan:
    """one driver job = one builder program (+ the programs of its direct nested builders)"""

    def __init__(self, sid, lang, builder, calls, kind, ctor=None):
        self.sid, self.lang, self.builder, self.calls, self.kind = sid, lang, builder, calls, kind
        self.ctor = ctor or []          # constructor arguments (ARGs)
        # calls: [{"opt": option JSON, "args": [ARG], "facts": set, "want": str}]
        self.result = None
        self.subs = []        # per call: list of driver results of the direct nested programs (in order)

    def program(self):
        b = self.builder
        return {"pkg": b["For"]["SelfRef"]["ReferredPkg"], "name": b["Name"], "ctor": list(self.ctor),
                "calls": [(c["opt"]["Name"], c["args"]) for c in self.calls]}

    def payload(self, batch):
        s = batch.schemas[self.sid]
        return {"fmt": s["fmt"], "pkg": self.sid, "schema_text": s["text"], "veneers": s["veneers"], "lang": self.lang,
                "extra_inputs": s.get("extra_inputs") or [], "passes": s.get("passes") or [],
                "program": gb.prog_to_json(self.program()), "kind": self.kind,
                "wants": [c["want"] for c in self.calls]}


def plan_builder(rng, ag, ir, sid, lang, b, thorough):
    def ctor_args():
        out = []
        for a in (b.get("Constructor") or {}).get("Args") or []:
            x, _ = ag.gen(a["Type"], "valid")
            out.append(x)
        return out
    try:
        plans = [Plan(sid, lang, b, [], "default", ctor=ctor_args())]
    except gb.Unsupported:
        return []
    opts = b.get("Options") or []
    for o in opts:
        args = o.get("Args") or []
        wants = ["valid"] + [w for w in FAULTS if any(ag.can(a["Type"], w) for a in args)]
        if thorough:
            wants = ["valid"] + wants
        for w in wants:
            try:
                vals, facts = [], set()
                injected = False
                for a in args:
                    ww = "valid"
                    if w != "valid" and not injected and ag.can(a["Type"], w):
                        ww = w
                        injected = True
                    x, f = ag.gen(a["Type"], ww)
                    vals.append(x)
                    facts |= f
            except gb.Unsupported:
                continue
            plans.append(Plan(sid, lang, b, [{"opt": o, "args": vals, "facts": facts, "want": w}], "single", ctor=ctor_args()))
    usable = [o for o in opts]
    for _ in range(3 if thorough else 1):
        if not usable:
            break
        calls = []
        for _ in range(rng.randint(2, 5)):
            o = rng.choice(usable)
            try:
                vals = []
                for a in (o.get("Args") or []):
                    x, f = ag.gen(a["Type"], "valid")
                    vals.append(x)
                calls.append({"opt": o, "args": vals, "facts": set(), "want": "valid"})
            except gb.Unsupported:
                continue
        if len(calls) >= 2:
            plans.append(Plan(sid, lang, b, calls, "sequence", ctor=ctor_args()))
    return plans


def driver_job(ir, lang, jid, prog, steps):
    p = gb.go_prog(ir, prog) if lang == "go" else gb.py_prog(ir, prog)
    return {"id": jid, "op": "run", "prog": p, "steps": steps}


# ---------------------------------------------------------------------------------------------- gallina of observations
def g_strs(l):
    return gencode.g_list(srcgen.g_str(x) for x in l)


def go_obs_term(r, steps):
    states = gencode.g_list("(%s, %s)" % (gb.dump_to_gallina(s["dump"]), g_strs(s.get("errors") or [])) for s in r["states"]
                            if s.get("dump") is not None)
    bld = r.get("build") or {}
    built = gb.dump_to_gallina(bld["dump"]) if bld.get("s") == "ok" else "GNil"
    return "(mkBObs %s %s %s %s %s %s)" % ("true" if steps else "false", states, srcgen.g_str(r.get("call") or ""),
                                            srcgen.g_str(bld.get("s") or ""), g_strs(bld.get("paths") or []), built)


def py_obs_term(r, steps, fields_of):
    states = gencode.g_list(gb.dump_to_gallina(s, fields_of) for s in r["states"])
    bld = r.get("build") or {}
    built = gb.dump_to_gallina(bld["dump"], fields_of) if bld.get("s") == "ok" else "GNil"
    return "(mkPObs %s %s %s %s %s)" % ("true" if steps else "false", states, srcgen.g_str(r.get("call") or ""),
                                         srcgen.g_z(int(r.get("raised_at", 0) or 0)), built)


# ---------------------------------------------------------------------------------------------- the property on real output
def judge(plan, ir, defaults, fields_of, verdict_cb, scenario=None):
    """evaluate the property on the real output of one plan; verdict_cb(sig, detail)"""
    r = plan.result
    lang = plan.lang
    if r is None or r.get("error") or not r.get("known"):
        return
    go = lang == "go"
    states = [(gb.plain(s["dump"], None) if go else gb.plain(s, fields_of)) for s in r["states"]
              if (s.get("dump") is not None if go else True)]
    clean = all(not c["facts"] for c in plan.calls)
    nested_failed = False
    for subs in plan.subs:
        for sr in subs:
            if sr is None:
                nested_failed = True
            elif go and (sr.get("build") or {}).get("s") != "ok":
                nested_failed = True
            elif not go and sr.get("call") != "ok":
                nested_failed = True
    ok_call = r.get("call") == "ok"
    bld = r.get("build") or {}
    # ---- constants
    for asg in (plan.builder.get("Constructor") or {}).get("Assignments") or []:
        if asg["Value"].get("Constant") is None:
            continue
        names = [it["Identifier"] for it in asg["Path"]]
        touched = any(p.split(".")[0] == names[0] for c in plan.calls for p in gb.assigned_prefixes(c["opt"]))
        if touched:
            continue
        for st in states:
            cur = st
            for n in names:
                cur = cur.get(n) if isinstance(cur, dict) else None
            if not gb.same(cur, asg["Value"]["Constant"]):
                verdict_cb({"lang": lang, "law": "constants_present", "cause": "constant-missing"},
                           "constant %r at %s, observed %r" % (asg["Value"]["Constant"], ".".join(names), cur))
                break
    # ---- scenario knowledge that does not come from the builder IR: an option merged under a path writes the
    #      field it is named after, below that path
    if scenario is not None and scenario.get("shape") == "deep-merge" and len(plan.calls) == 1 and ok_call and states \
            and not plan.calls[0]["facts"] and plan.builder["Name"] == "Root":
        c0 = plan.calls[0]
        under = scenario["veneers"]["builders"][0]["merge_into"]["under_path"].split(".")
        if len(c0["args"]) == 1 and "v" in c0["args"][0] and len((c0["opt"].get("Assignments") or [{}])[0].get("Path") or []) > 1:
            cur = states[-1]
            for n in under + [c0["opt"]["Name"]]:
                cur = cur.get(n) if isinstance(cur, dict) else None
            if not gb.same(cur, c0["args"][0]["v"]):
                verdict_cb({"lang": lang, "law": "option_sets_exactly_target", "cause": "merged-option-writes-another-field"},
                           "option %s merged under %s: that field holds %r after the call with %r"
                           % (c0["opt"]["Name"], ".".join(under), cur, c0["args"][0]["v"]))
    # ---- constants the SCHEMA fixes (independently of the builder IR): a field that is a constant, or a required
    #      non-nullable reference to a constant object of any package, holds that constant in every state
    for g, cval in schema_constants(ir, plan.builder).items():
        if any(p.split(".")[0] == g for c in plan.calls for p in gb.assigned_prefixes(c["opt"])):
            continue
        for st in states:
            cur = st.get(g) if isinstance(st, dict) else None
            if not gb.same(cur, cval):
                verdict_cb({"lang": lang, "law": "constants_present", "cause": "schema-constant-missing-or-wrong"},
                           "field %s is the constant %r in the schema, observed %r" % (g, cval, cur))
                break
    facts = set().union(*[c["facts"] for c in plan.calls]) if plan.calls else set()
    hard = facts & {"bound", "elem", "alias"}
    faulty = bool(hard) or nested_failed
    if not faulty:
        # ---- valid never fails
        if not ok_call:
            cause = "option-call-" + ("panics" if go else "raises")
            if not go and any(ev["Value"].get("Constant") is not None for c in plan.calls for a in c["opt"].get("Assignments") or []
                              for ev in ((a["Value"].get("Envelope") or {}).get("Values") or [])):
                cause = "envelope-constant-keyword-argument"
            verdict_cb({"lang": lang, "law": "valid_never_fails", "cause": cause},
                       "call %s on valid arguments (raised %s)" % (r.get("call"), r.get("raised")))
            return
        if go:
            if bld.get("s") == "panic":
                verdict_cb({"lang": lang, "law": "valid_never_fails", "cause": "build-panics"}, "Build() panics")
            elif bld.get("s") == "err":
                pre = [p for c in plan.calls for p in gb.assigned_prefixes(c["opt"])]
                blamed = [p for p in bld.get("paths") or [] if any(gb.path_under(p, q) for q in pre)]
                if blamed:
                    verdict_cb({"lang": lang, "law": "valid_never_fails", "cause": "error-at-assigned-path"},
                               "Build() reports %r for valid arguments" % blamed)
        # ---- exactness, step by step
        if len(states) == len(plan.calls) + 1:
            for k, c in enumerate(plan.calls):
                try:
                    it = iter(plan.subs[k])
                    argvals = {}
                    for a, x in zip(c["opt"].get("Args") or [], c["args"]):
                        argvals[a["Name"]] = gb._resolve_dumps(gb.arg_expected(x, it), fields_of if not go else None)
                    want = gb.spec_apply(ir, states[k], c["opt"], argvals, defaults)
                except gb.SpecSkip:
                    continue
                if not gb.same(want, states[k + 1]):
                    diff = first_diff(want, states[k + 1])
                    verdict_cb({"lang": lang, "law": "option_sets_exactly_target", "cause": classify_exact(c["opt"], diff)},
                               "call %d (%s): expected vs observed differ at %s" % (k, c["opt"]["Name"], diff))
                    break
    else:
        # ---- invalid reported: an injected constraint violation, or a direct nested builder that fails when run alone
        c0 = plan.calls[0]
        cause = CAUSE.get(c0["want"], "failing-nested-builder") if hard else "failing-nested-builder"
        if hard and cause == "direct-constraint" and any(a["Method"] == "append" for a in c0["opt"].get("Assignments") or []):
            cause = "appended-element-constraint"
        if hard and cause == "direct-constraint" and any(a["Method"] == "index" for a in c0["opt"].get("Assignments") or []):
            cause = "indexed-element-constraint"
        if go:
            if ok_call and bld.get("s") == "ok":
                verdict_cb({"lang": lang, "law": "invalid_reported", "cause": cause},
                           "Build() returns no error (builder.errors = %r)" % (r["states"][-1].get("errors") if r["states"] else None))
        elif ok_call:
            verdict_cb({"lang": lang, "law": "invalid_reported", "cause": cause}, "no exception raised")


def schema_constants(ir, b):
    out = {}
    t = b["For"]["Type"]
    if t["Kind"] == "ref":
        t = ir.resolve(t)
    for f in ((t.get("Struct") or {}).get("Fields") or []):
        ft = f["Type"]
        if ft["Kind"] == "scalar" and (ft.get("Scalar") or {}).get("Value") is not None:
            out[f["Name"]] = ft["Scalar"]["Value"]
        elif ft["Kind"] == "ref" and f.get("Required") and not ft.get("Nullable"):
            rt = ir.resolve(ft)
            if rt["Kind"] == "scalar" and (rt.get("Scalar") or {}).get("Value") is not None:
                out[f["Name"]] = rt["Scalar"]["Value"]
    return out


def first_diff(a, b, path=""):
    if isinstance(a, gb.Env):
        for k, v in a.fields.items():
            if not gb.same(v, (b or {}).get(k) if isinstance(b, dict) else None):
                return first_diff(v, b.get(k) if isinstance(b, dict) else None, path + "." + k)
        return path
    if isinstance(a, dict) and isinstance(b, dict):
        for k in sorted(set(a) | set(b)):
            if not gb.same(a.get(k), b.get(k)):
                return first_diff(a.get(k), b.get(k), (path + "." + k) if path else k)
    if isinstance(a, list) and isinstance(b, list) and len(a) == len(b):
        for i, (x, y) in enumerate(zip(a, b)):
            if not gb.same(x, y):
                return first_diff(x, y, "%s[%d]" % (path, i))
    return "%s: expected %s observed %s" % (path, srcgen_repr(a), srcgen_repr(b))


def srcgen_repr(v):
    try:
        return json.dumps(v, default=str)[:160]
    except Exception:
        return repr(v)[:160]


def classify_exact(opt, diff):
    pre = gb.assigned_prefixes(opt)
    where = diff.split(":")[0]
    bare = re.sub(r"\[[^\]]*\]", "", where)
    if any(bare == p or bare.startswith(p + ".") or p.startswith(bare + ".") for p in pre):
        return "target-value"
    return "frame"


# ---------------------------------------------------------------------------------------------- run
def run(ctx, verdict, replay=None, model_ok=True):
    rng = ctx.rng
    thorough = ctx.tier == "thorough"
    batch = gb.BldBatch(ctx, "c09")
    scen = {}          # sid -> targeted scenario
    replay_plans = []
    if replay:
        rp = json.load(open(replay))
        job = rp.get("job") or rp["first_mismatch"]["job"]
        batch.add({"pkg": job["pkg"], "root": "Root", "defs": []}, job["fmt"], veneers=job["veneers"], text=job["schema_text"],
                  extra_inputs=[tuple(x) for x in job.get("extra_inputs") or []], passes=job.get("passes") or None)
        replay_plans.append(job)
    else:
        n = 200 if thorough else 120
        k = 0
        for fmt in srcgen.FORMATS:
            for _ in range(n):
                s = srcgen.SrcGen(rng, max_depth=4 if thorough else 3, fmt=fmt).schema("s%03d" % k)
                # a required nullable reference back to an enclosing object makes the generated Go constructors
                # recurse forever (New<A>() -> New<B>() -> New<A>() ...: C10 / C04's subject, reported there)
                srcgen._break_required_cycles(s, through_nullable=True)
                k += 1
                text = add_defaults(rng, srcgen.render(s, fmt), fmt)
                batch.add(s, fmt, veneers=gen_veneers(rng, s) if rng.random() < 0.75 else None, text=text)
        # targeted shapes: multi-assignment options under nested OPTIONAL structs (add_option), options sharing a
        # constant side-assignment (add_assignment), per-branch appending options of a list of a union
        for rep in range(3 if thorough else 1):
            for sc in gb.scenarios(rng, prefix="t%d" % rep):
                sid_ = batch.add(srcgen.project(sc["schema"], sc["fmt"]), sc["fmt"], veneers=sc["veneers"],
                                 extra_inputs=sc.get("extra_inputs"), passes=sc.get("passes"))
                scen[sid_] = sc
    batch.generate()
    batch.build_go_driver()
    gen_hist = {}
    for sid, g in batch.gen.items():
        key = batch.schemas[sid]["fmt"] + ":" + (g["status"] if g["status"] == "OK" else g["status"] + "@" + g.get("stage", ""))
        gen_hist[key] = gen_hist.get(key, 0) + 1
    ctx.log("cog ran on %d schemas: %s; %d Go packages do not compile, %d needed an unused import removed"
            % (len(batch.schemas), gen_hist, len(batch.compile_errors), len(batch.import_fixups)))

    # a targeted scenario whose generated Go does not compile: there is no builder to call at all
    for sid_ in sorted(set(scen) & set(batch.compile_errors)):
        s_ = batch.schemas[sid_]
        verdict.propfail({"lang": "go", "law": "builders_compile", "cause": "scenario-" + scen[sid_]["shape"]},
                         {"job": {"fmt": s_["fmt"], "pkg": sid_, "schema_text": s_["text"], "veneers": s_["veneers"], "lang": "go",
                                  "extra_inputs": s_.get("extra_inputs") or [], "passes": s_.get("passes") or [],
                                  "program": {"pkg": sid_, "name": "Root", "ctor": [], "calls": []}, "kind": "default", "wants": []},
                          "observed": batch.compile_errors[sid_][:1500]})
    # ---- defaults of every struct object, per language
    irs, defaults_g, defaults_p, fields_of, djobs = {}, {}, {}, {}, {"go": [], "python": []}
    gen_ok = [s for s in batch.schemas if batch.gen[s]["status"] == "OK"]
    for sid in gen_ok:
        for lang in ("go", "python"):
            if lang == "go" and sid in batch.compile_errors:
                continue
            lo = batch.lang(sid, lang)
            irs[(sid, lang)] = gb.IR(lo)
            for o in lo["objects"]:
                if o["kind"] == "struct" or (lang == "go" and o.get("ctor")):
                    key = "%s.%s" % (o["gopkg"] if lang == "go" else o["pkg"].lower(), o["go"])
                    djobs[lang].append({"id": "%s|%s|%s" % (sid, o["pkg"], o["name"]), "op": "default", "t": key, "sid": sid})
    dres = {"go": batch.run_go(djobs["go"]), "python": batch.run_py(djobs["python"])}
    for lang in ("go", "python"):
        for j, r in zip(djobs[lang], dres[lang]):
            sid, pkg, name = j["id"].split("|")
            if r is None or not r.get("known") or r.get("call") != "ok":
                continue
            fo = fields_of.setdefault((sid, lang), {})
            if lang == "python":
                summ = irs[(sid, lang)].summary[(pkg, name)]
                fo[summ["go"]] = summ["fields"] or []
    for lang in ("go", "python"):
        for j, r in zip(djobs[lang], dres[lang]):
            sid, pkg, name = j["id"].split("|")
            if r is None or not r.get("known") or r.get("call") != "ok":
                continue
            fo = fields_of.get((sid, lang)) if lang == "python" else None
            defaults_g.setdefault((sid, lang), []).append((pkg, name, gb.dump_to_gallina(r["dump"], fo)))
            defaults_p.setdefault((sid, lang), {})[(pkg, name)] = gb.plain(r["dump"], fo)

    # ---- plans
    plans = []
    if replay:
        for job in replay_plans:
            lang = job["lang"]
            ir = irs.get((job["pkg"], lang))
            if ir is None:
                continue
            prog = gb.prog_from_json(job["program"])
            b = ir.builder(prog["pkg"], prog["name"])
            if b is None:
                continue
            calls = []
            for (on, args), w in zip(prog["calls"], job.get("wants") or ["valid"] * len(prog["calls"])):
                o = next((x for x in (b.get("Options") or []) if x["Name"] == on), None)
                if o is None:
                    calls = None
                    break
                calls.append({"opt": o, "args": args, "facts": set() if w == "valid" else {w if w in ("bound", "elem", "alias") else "nested"},
                              "want": w})
            if calls is not None:
                plans.append(Plan(job["pkg"], lang, b, calls, job.get("kind", "single"), ctor=prog["ctor"]))
    else:
        cap = 90 if thorough else 45
        for (sid, lang), ir in sorted(irs.items()):
            ag = gb.ArgGen(rng, ir, lang)
            mine = []
            for b in ir.builders:
                try:
                    mine += plan_builder(rng, ag, ir, sid, lang, b, thorough)
                except gb.Unsupported:
                    continue
            if len(mine) > cap:
                keep = [p for p in mine if p.kind != "single"]
                singles = [p for p in mine if p.kind == "single"]
                rng.shuffle(singles)
                mine = keep[:cap // 3] + singles[:cap - min(len(keep), cap // 3)]
            plans += mine
    # ---- driver jobs (main + direct nested programs)
    jobs = {"go": [], "python": []}
    index = {"go": [], "python": []}
    for pi, p in enumerate(plans):
        ir = irs[(p.sid, p.lang)]
        jobs[p.lang].append(dict(driver_job(ir, p.lang, "p%d" % pi, p.program(), True), sid=p.sid))
        index[p.lang].append((pi, None, None))
        p.subs = [[] for _ in p.calls]
        for ci, c in enumerate(p.calls):
            for a in c["args"]:
                for np_ in gb.nested_progs(a):
                    jobs[p.lang].append(dict(driver_job(ir, p.lang, "p%d/%d" % (pi, ci), np_, False), sid=p.sid))
                    index[p.lang].append((pi, ci, len(p.subs[ci])))
                    p.subs[ci].append(None)
    results = {"go": batch.run_go(jobs["go"]), "python": batch.run_py(jobs["python"])}
    for lang in ("go", "python"):
        for (pi, ci, si), r in zip(index[lang], results[lang]):
            if ci is None:
                plans[pi].result = r
            else:
                plans[pi].subs[ci][si] = r
    if os.environ.get("C09_DEBUG"):
        json.dump({"dead": [[lang, jobs[lang][k]] for lang in ("go", "python") for k, r in enumerate(results[lang]) if r is None]},
                  open(os.environ["C09_DEBUG"], "w"), default=lambda o: getattr(o, "text", str(o)))
    live = [i for i, p in enumerate(plans) if p.result is not None and p.result.get("known") and not p.result.get("error")]
    dead = [i for i, p in enumerate(plans) if p.result is None]
    errs = [i for i, p in enumerate(plans) if p.result is not None and p.result.get("error")]
    ctx.log("drivers ran %d programs (%d Go, %d Python incl. nested): %d usable, %d killed the driver, %d not executable (%s)"
            % (len(plans), len(jobs["go"]), len(jobs["python"]), len(live), len(dead), len(errs),
               "; ".join(sorted({plans[i].result["error"][:60] for i in errs})[:3])))

    # ---- the model, inside Coq
    env_defs, cases_go, cases_py, idx_go, idx_py = {}, [], [], [], []
    for i in live:
        p = plans[i]
        key = "%s_%s" % (p.sid, p.lang)
        if key not in env_defs:
            env_defs[key] = gb.env_def(p.sid, p.lang, batch.lang(p.sid, p.lang), defaults_g.get((p.sid, p.lang), []))
        prog = p.program()
        head = "(env_%s, (%s, %s), %s, %s, " % (key, srcgen.g_str(prog["pkg"]), srcgen.g_str(prog["name"]),
                                                gencode.g_list(gb.gallina_arg(a) for a in prog["ctor"]), gb.gallina_calls(prog["calls"]))
        if p.lang == "go":
            cases_go.append((key, head + go_obs_term(p.result, True) + ")"))
            idx_go.append(i)
        else:
            cases_py.append((key, head + py_obs_term(p.result, True, fields_of.get((p.sid, "python"))) + ")"))
            idx_py.append(i)
    ev_go = gb.eval_cases(ctx, "cases_C09_go", "Model.BuilderCheck", env_defs, cases_go, "bcase",
                          [("UNM", "go_case_unmodelled"), ("MM_STATES", "go_mm_states"), ("MM_BUILD", "go_mm_build")]) if cases_go else \
        {"UNM": [], "MM_STATES": [], "MM_BUILD": []}
    ev_py = gb.eval_cases(ctx, "cases_C09_py", "Model.BuilderCheck", env_defs, cases_py, "pcase",
                          [("UNM", "py_case_unmodelled"), ("MM", "py_mm")]) if cases_py else {"UNM": [], "MM": []}
    ctx.log("coq evaluated %d Go cases (%s) and %d Python cases (%s)"
            % (len(cases_go), " ".join("%s=%d" % (k, len(v)) for k, v in ev_go.items()),
               len(cases_py), " ".join("%s=%d" % (k, len(v)) for k, v in ev_py.items())))
    mm = sorted({idx_go[x] for x in ev_go["MM_STATES"] + ev_go["MM_BUILD"]} | {idx_py[x] for x in ev_py["MM"]})
    unm = {idx_go[x] for x in ev_go["UNM"]} | {idx_py[x] for x in ev_py["UNM"]}

    # ---- the property, on the real output
    pf = {}
    budget = [40]

    def report(i):
        def cb(sig, detail):
            pf.setdefault(json.dumps(sig, sort_keys=True), []).append(i)
            if budget[0] > 0:
                p = plans[i]
                st = verdict.propfail(sig, {"job": p.payload(batch), "observed": trim(p.result), "detail": detail,
                                            "predicate": "vlib/gencode_bld.py spec_apply/same (exactness), Build()/raise outcome (reporting)"})
                if st == "violation":
                    budget[0] -= 1
        return cb
    order = sorted(live, key=lambda i: len(json.dumps(plans[i].payload(batch)["program"])))
    for i in order:
        p = plans[i]
        judge(p, irs[(p.sid, p.lang)], defaults_p.get((p.sid, p.lang), {}), fields_of.get((p.sid, p.lang)), report(i),
              scenario=scen.get(p.sid))
    for i in dead[:3]:
        verdict.propfail({"lang": plans[i].lang, "law": "valid_never_fails", "cause": "driver-process-died"},
                         {"job": plans[i].payload(batch), "observed": "driver process died or timed out"})
    explained = {i for v in pf.values() for i in v}
    unexplained = [{"job": plans[i].payload(batch), "observed": trim(plans[i].result),
                    "which": [k for k, ix, ev in (("MM_STATES", idx_go, ev_go), ("MM_BUILD", idx_go, ev_go), ("MM", idx_py, ev_py))
                              if k in ev and i in {ix[x] for x in ev[k]}]} for i in mm][:20]

    # ---- coverage
    distinct, nontriv = set(), 0
    kinds, wants, shapes, outcomes = {}, {}, {}, {}
    for i in live:
        p = plans[i]
        kinds[p.lang + ":" + p.kind] = kinds.get(p.lang + ":" + p.kind, 0) + 1
        for c in p.calls:
            wants[p.lang + ":" + c["want"]] = wants.get(p.lang + ":" + c["want"], 0) + 1
            for asg in c["opt"].get("Assignments") or []:
                shape = "%s/len%d%s%s%s" % (asg["Method"], len(asg["Path"]), "/nilchecks" if asg.get("NilChecks") else "",
                                            "/envelope" if asg["Value"].get("Envelope") else "",
                                            "/constant" if asg["Value"].get("Constant") is not None else "")
                shapes[shape] = shapes.get(shape, 0) + 1
        r = p.result
        oc = (r.get("call") or "") + "/" + ((r.get("build") or {}).get("s") or "")
        outcomes[p.lang + ":" + oc] = outcomes.get(p.lang + ":" + oc, 0) + 1
        h = core.canon_hash([p.sid, p.lang, p.payload(batch)["program"]])
        if h in distinct or i in unm:
            continue
        distinct.add(h)
        if p.calls and len(p.builder.get("Options") or []) >= 2:
            nontriv += 1
    samples = []
    for i in [x for x in live if plans[x].kind == "single"][:2] + [x for x in live if plans[x].kind == "sequence"][:1]:
        p = plans[i]
        samples.append({"lang": p.lang, "format": batch.schemas[p.sid]["fmt"], "veneers": batch.schemas[p.sid]["veneers"][:4],
                        "program": p.payload(batch)["program"], "call": p.result.get("call"), "build": (p.result.get("build") or {}).get("s"),
                        "last_state_json": (p.result["states"][-1].get("json") if p.lang == "go" and p.result["states"] else None)})
    cov = {
        "evaluations": len(live),
        "distinct_nontrivial": nontriv,
        "rule": "one evaluation = one builder program run against the real generated builder (Go or Python) with the object under construction observed after the constructor and after every call, builder.errors, and Build() / the raised exception; distinct by hash of (schema, language, program); non-trivial = at least one option call on a builder with >= 2 options; unmodelled cases are not counted",
        "samples": samples,
        "schemas": len(batch.schemas),
        "cog_outcomes_by_format": gen_hist,
        "go_packages_not_compiling": len(batch.compile_errors),
        "go_compile_error_samples": [v.split("\n")[0][:200] for v in list(batch.compile_errors.values())[:3]],
        "nested_programs_run_alone": len(jobs["go"]) + len(jobs["python"]) - len(plans),
        "default_objects_observed": sum(len(v) for v in defaults_p.values()),
        "program_kind_histogram": kinds,
        "argument_kind_histogram": wants,
        "assignment_shape_histogram": shapes,
        "outcome_histogram": outcomes,
        "unmodelled_cases": len(unm),
        "mismatches_model_vs_impl": {"go_states": len(ev_go["MM_STATES"]), "go_build": len(ev_go["MM_BUILD"]), "python": len(ev_py["MM"])},
        "propfails_on_impl": {k: len(v) for k, v in pf.items()},
        "cases_validated_against_impl": len(live) - len(unm) - len(mm),
    }
    return {"coverage": cov, "unexplained_mismatches": [u for i, u in zip(mm, unexplained) if i not in explained],
            "search_note": "generated schemas x veneers x (every option x valid / constraint-violating / failing-nested arguments, random call sequences) on the real Go and Python builders"}


def trim(r):
    if r is None:
        return None
    out = {k: v for k, v in r.items() if k != "states"}
    sts = r.get("states") or []
    out["states_json"] = [(s.get("json") if isinstance(s, dict) and "json" in s else s) for s in sts][-2:]
    out["errors"] = [s.get("errors") for s in sts if isinstance(s, dict) and "errors" in s][-1:]
    return json.loads(json.dumps(out, default=str))


def trim_any(r):
    if r is None:
        return None
    return json.loads(json.dumps({k: v for k, v in r.items() if k != "dump"}, default=str))
