"""C17 — builder transformations keep builders well-typed, leave what they do not select alone,
and honour their contracts.

Theorems: coq/Props/C17.v over coq/Model/Veneers.v (every builder rule, option action, selector,
the YAML-level loader and Rewriter.ApplyTo, Path.Append and MakePath; purely functional since /repo
a8e18fa + 0b5ce6d: no rule writes through a cell that shallow copies share any more).
Tie to the code: (a) translator — the members of yaml.BuilderRule / yaml.OptionRule and the order
in which AsRewriteRule dispatches them are regenerated from internal/yaml/builder.go, option.go
into coq/Gen/VeneerRegistry_gen.v and checked against the model's dispatch, together with how Path.Append
builds its result (internal/ast/builder.go: copying / aliasing / unknown); (b) correspondence —
builders from the real FromAST on generated schemas x generated rule files, applied by the real
rewrite.Rewriter.ApplyTo (half of the cases loaded by the real YAML veneers loader, half built
through the Go rule constructors; harness/verifh_ven); the result is compared inside Coq with
the model — STRICTLY: cog's builders must equal apply_to's (MISMATCH) — and judged by the decidable checkers of coq/Model/VeneersSpec.v: WT,
frame_ok, rule contracts (PROPFAIL)."""
import collections
import copy
import json
import os
import re

from gen import vengen
from vlib import core, passlib

COQ_TARGETS = ["Props/C17.vo", "Model/VeneersSpec.vo"]
PROPS = "Props/C17.v"
TRUSTED = [
    "hand-written Gallina models of internal/veneers/builder/rules.go, selectors.go, option/actions.go, rules.go, selectors.go, veneers/types.go, rewrite/rewrite.go, yaml/builder.go, option.go, veneers.go and ast/builder.go MakePath/DeepCopy (coq/Model/Veneers.v); VeneerTrail and the Debug rules built on it are not modelled",
    "sharing: options and assignments copied shallowly (merge_into, compose, promote, add_option, add_assignment) share *Argument cells and Args arrays, but no rule writes through them any more (a8e18fa, 0b5ce6d): the model is functional and cog's output must EQUAL the model's; writes into spare slice capacity shared between two holders (append on Comments, Assignments, Options) are NOT modelled",
    "harness harness/verifh_ven (printers ir.go, builders.go, veneers.go; own YAML decode of the rule files, only to print what they say)",
    "translator regen() in checks/c17.py (regular expressions over internal/yaml/builder.go, option.go and the body of Path.Append in internal/ast/builder.go)",
]
ASSUMPTIONS = [
    "identifiers are ASCII (strings.EqualFold, x/text title-casing)",
    "the claim is judged on builder sets that are well-typed and describe objects of the schemas (what FromAST derives), on schema sets without alias cycles, and — for WT — on rule files whose own parameters are well-formed (an added option only uses the arguments it declares; add_assignment carries no argument value)",
    "index-out-of-range / nil-dereference panics of rules on options without arguments or assignments are C04's subject: reported in coverage, not counted as C17 violations",
]

PREAMBLE = passlib.PREAMBLE % "Model.VeneersSpec"
KINDS = ["builder:omit", "builder:rename", "builder:merge_into", "builder:compose", "builder:properties", "builder:duplicate",
         "builder:initialize", "builder:promote_options_to_constructor", "builder:add_option", "builder:add_factory",
         "option:omit", "option:rename", "option:rename_arguments", "option:unfold_boolean", "option:struct_fields_as_arguments",
         "option:struct_fields_as_options", "option:array_to_append", "option:map_to_index", "option:disjunction_as_options",
         "option:duplicate", "option:add_assignment", "option:add_comments"]
REASONS = {0: "none", 1: "path-not-a-chain-of-fields", 2: "undeclared-argument", 3: "constraint-on-undeclared-argument"}


# ---------------------------------------------------------------- translator: rule registries
def _members(src, struct):
    m = re.search(r"type %s struct \{(.*?)\n\}" % struct, src, re.S)
    if not m:
        return None
    return re.findall(r"^\s*(\w+)\s+\*\w+\s+`yaml:\"(\w+)\"`", m.group(1), re.M)


def _dispatch(src, struct):
    m = re.search(r"func \(rule %s\) AsRewriteRule\(.*?\n\}\n" % struct, src, re.S)
    if not m:
        return None
    return re.findall(r"if rule\.(\w+) != nil \{", m.group(0))


def _append_class(src):
    """how does Path.Append build its result?  "copying": every append goes into a slice declared in the
    function itself and that slice is returned; "aliasing": some append extends (or the function returns)
    the receiver or the parameter; "unknown": anything else (treated as unproved by the Coq side)"""
    m = re.search(r"func \((\w+) Path\) Append\((\w+) Path\) Path \{(.*?)\n\}\n", src, re.S)
    if not m:
        return "unknown"
    recv, param, body = m.group(1), m.group(2), m.group(3)
    local = set(re.findall(r"\bvar (\w+) Path\b", body)) | set(re.findall(r"\b(\w+) := make\(", body)) \
        | set(re.findall(r"\b(\w+) := (?:Path|\[\]PathItem)\{\}", body))
    local -= {recv, param}
    appends = re.findall(r"\bappend\((\w+)\s*,", body)
    rets = re.findall(r"\breturn\s+([^\n]+)", body)
    if any(a in (recv, param) for a in appends) or any(re.match(r"(%s|%s)\b" % (recv, param), r.strip()) for r in rets):
        return "aliasing"
    if rets and all(r.strip() in local for r in rets) and all(a in local for a in appends) and (appends or "copy(" in body):
        return "copying"
    return "unknown"


def regen(ctx):
    ydir = os.path.join(core.REPO, "internal", "yaml")
    out = ["(* GENERATED by checks/c17.py regen() from internal/yaml/builder.go and option.go: the members of",
           "   BuilderRule / OptionRule (yaml key, declaration order) and the order AsRewriteRule tests them;",
           "   from internal/ast/builder.go: how Path.Append builds its result. *)",
           "From Coq Require Import List String.", "Import ListNotations.", "Local Open Scope string_scope.", ""]
    for fname, struct, ident in (("builder.go", "BuilderRule", "builder_rule"), ("option.go", "OptionRule", "option_rule")):
        try:
            src = open(os.path.join(ydir, fname)).read()
        except OSError:
            src = ""
        mem = _members(src, struct) or []
        dis = _dispatch(src, struct) or []
        key = dict(mem)
        out.append("Definition %s_members : list string := [%s]." % (ident, "; ".join('"%s"' % k for _, k in mem)))
        out.append("Definition %s_dispatch : list string := [%s]." % (ident, "; ".join('"%s"' % key.get(f, "?" + f) for f in dis)))
        out.append("")
    try:
        bsrc = open(os.path.join(core.REPO, "internal", "ast", "builder.go")).read()
    except OSError:
        bsrc = ""
    out.append('Definition path_append_class : string := "%s".' % _append_class(bsrc))
    out.append("")
    core.write_if_changed(os.path.join(core.COQ, "Gen", "VeneerRegistry_gen.v"), "\n".join(out))


# ---------------------------------------------------------------- classification of a failing case
def rule_kinds(job):
    ks = []
    for f in job["files"]:
        if f["language"] not in ("all", job["language"]):
            continue
        ks += ["builder:" + (list(r.keys()) or ["empty"])[0] for r in f["builders"]]
        ks += ["option:" + (list(r.keys()) or ["empty"])[0] for r in f["options"]]
    return ks


def decode_culprit(code):
    k = code // 10
    return (KINDS[k] if k < len(KINDS) else "unknown"), code % 10


def strip_job(job):
    j = copy.deepcopy(job)
    for f in j["files"]:
        f.pop("yaml", None)
    return j


# ---------------------------------------------------------------- run
def run(ctx, verdict, replay=None, model_ok=True):
    rng = ctx.rng
    thorough = ctx.tier == "thorough"
    jobs = []
    if replay:
        rp = json.load(open(replay))
        job = rp.get("job") or rp["first_mismatch"]["job"]
        for f in job["files"]:
            f.setdefault("yaml", vengen.render_yaml(f))
        jobs = [job]
    else:
        for j in vengen.seed_jobs():
            jobs.append(j)
        cdir = os.path.join(core.VERIF, "corpus", "C17")
        if os.path.isdir(cdir):
            for f in sorted(os.listdir(cdir)):
                job = json.load(open(os.path.join(cdir, f)))["job"]
                for fl in job["files"]:
                    fl.setdefault("yaml", vengen.render_yaml(fl))
                jobs.append(job)
        for _ in range(9000 if thorough else 640):
            jobs.append(vengen.gen_job(rng, 4 if thorough else 3))
        for _ in range(600 if thorough else 60):
            jobs.append(vengen.deep_path_job(rng))
        for _ in range(500 if thorough else 50):
            jobs.append(vengen.two_level_job(rng))
    binp = core.build_harness(ctx, "verifh_ven")
    ydir = os.path.join(ctx.scratch, "yaml")
    os.makedirs(ydir, exist_ok=True)
    lines = core.run_harness_robust(binp, "veneers", [json.dumps(j) for j in jobs], timeout=240, args=(ydir,), chunk=100)
    res = []
    for ln in lines:
        if ln is None:
            res.append({"status": "FATAL"})
            continue
        p = ln.split("\t")
        if len(p) != 5:
            res.append({"status": p[0] if p[0] in ("LOADPANIC", "YAMLDECODE") else "BADLINE", "detail": ln[:300]})
            continue
        res.append({"status": "OK", "term": "(%s)" % ", ".join(p), "outcome": p[4]})
    ok_idx = [i for i, r in enumerate(res) if r["status"] == "OK"]
    st = collections.Counter(r["status"] for r in res)
    ctx.log("implementation ran: %d cases %s" % (len(res), dict(st)))

    shard = 40 if not thorough else 120
    shards = [ok_idx[i:i + shard] for i in range(0, len(ok_idx), shard)]

    def do(k):
        ids = shards[k]
        cases = "[" + ";\n".join(res[i]["term"] for i in ids) + "]"
        pre = PREAMBLE + "Definition cases : list vcase :=\n%s.\n" % cases
        r = core.coq_eval_lists(ctx, "cases_C17_%d" % k, pre, [
            ("CODES", "ven_codes cases"), ("CODES2", "map ven_code2 cases"),
            ("WC", "codes pf_wt wt_culprit cases"), ("FC", "codes pf_frame frame_culprit cases")])
        return ids, r

    parts = core.parallel(do, list(range(len(shards))))
    code = {}
    wculprit, fculprit = {}, {}
    for ids, r in parts:
        if len(r["CODES"]) != len(ids):
            raise RuntimeError("case evaluation returned %d codes for %d cases" % (len(r["CODES"]), len(ids)))
        for i, c, c2 in zip(ids, r["CODES"], r["CODES2"]):
            code[i] = c + 4096 * c2
        wt_ids = [i for i in ids if code[i] & 8]
        fr_ids = [i for i in ids if code[i] & 16]
        for i, c in zip(wt_ids, r["WC"]):
            wculprit[i] = decode_culprit(c)
        for i, c in zip(fr_ids, r["FC"]):
            fculprit[i] = decode_culprit(c)
    has = lambda i, b: bool(code.get(i, 0) & b)
    mm = [i for i in ok_idx if has(i, 1)]
    pf_wt = [i for i in ok_idx if has(i, 8)]
    pf_fr = [i for i in ok_idx if has(i, 16)]
    pf_ct = [i for i in ok_idx if has(i, 32)]
    ctx.log("coq evaluated %d cases: mismatch=%d wt=%d frame=%d contract=%d last-duplicate=%d last-compose=%d" % (
        len(ok_idx), len(mm), len(pf_wt), len(pf_fr), len(pf_ct),
        sum(has(i, 1024) for i in ok_idx), sum(has(i, 2048) for i in ok_idx)))
    ctx.log("language-level rules against the state after the common level: contract=%d frame=%d" % (
        sum(has(i, 4096) for i in ok_idx), sum(has(i, 8192) for i in ok_idx)))

    # property failures on the implementation's own output; smallest case of each signature first
    explained = set()
    sigs = collections.Counter()

    def report(i, sig, predicate):
        sigs[json.dumps(sig, sort_keys=True)] += 1
        verdict.propfail(sig, {"job": strip_job(jobs[i]), "observed_outcome": res[i]["outcome"][:6000], "predicate": predicate,
                               "rules_in_order": rule_kinds(jobs[i])})
        explained.add(i)

    by_size = lambda ids: sorted(ids, key=lambda i: len(res[i]["term"]))
    for i in by_size(pf_wt):
        kind, n = wculprit.get(i, ("unknown", 0))
        report(i, {"what": "wt", "rule": kind, "reason": REASONS.get(n // 2, "?"), "shared": "yes" if n % 2 else "no"},
               "in_claim -> files_wf -> WTs (ApplyTo builders)   (Model/VeneersSpec.v pf_wt)")
    for i in by_size(pf_fr):
        kind, n = fculprit.get(i, ("unknown", 0))
        report(i, {"what": "frame", "rule": kind, "shared": "yes" if n % 2 else "no"},
               "in_claim -> frame_ok before (ApplyTo builders)   (Model/VeneersSpec.v pf_frame)")
    for i in by_size(pf_ct):
        ks = rule_kinds(jobs[i])
        report(i, {"what": "contract", "rule": ks[-1] if ks else "unknown"},
               "in_claim -> contract of the rule on a single-rule run   (Model/VeneersSpec.v pf_contract)")
    for i in by_size([i for i in ok_idx if has(i, 1024)]):
        report(i, {"what": "contract", "rule": "builder:duplicate", "as": "last-rule"},
               "in_claim -> the copy made by a final duplicate equals its source   (Model/VeneersSpec.v pf_last_duplicate)")
    for i in by_size([i for i in ok_idx if has(i, 2048)]):
        report(i, {"what": "contract", "rule": "builder:compose", "as": "last-builder-rule"},
               "in_claim -> a composed builder sets its own schema's identifier   (Model/VeneersSpec.v pf_last_compose)")
    def language_rules(job):
        ks = []
        for f in job["files"]:
            if f["language"] == job["language"]:
                ks += ["builder:" + (list(r.keys()) or ["empty"])[0] for r in f["builders"]]
                ks += ["option:" + (list(r.keys()) or ["empty"])[0] for r in f["options"]]
        return ks
    for i in by_size([i for i in ok_idx if has(i, 4096)]):
        ks = language_rules(jobs[i])
        report(i, {"what": "contract", "rule": ks[-1] if ks else "unknown", "as": "language-level-rule-after-common-level"},
               "in_claim -> contract of the single language-level rule against the builders after the common level (computed by the model)   (Model/VeneersSpec.v pf_language_contract)")
    for i in by_size([i for i in ok_idx if has(i, 8192)]):
        report(i, {"what": "frame", "as": "language-level-rules-after-common-level"},
               "in_claim -> frame_ok of the language-level rules against the builders after the common level (computed by the model)   (Model/VeneersSpec.v pf_language_frame)")
    unexplained = [{"job": strip_job(jobs[i]), "observed": res[i]["outcome"][:3000], "rules_in_order": rule_kinds(jobs[i])}
                   for i in mm if i not in explained]
    ctx.log("mismatches not explained by a property failure: %d" % len(unexplained))
    for i, r in enumerate(res):
        if r["status"] in ("YAMLDECODE", "BADLINE"):
            unexplained.append({"job": strip_job(jobs[i]), "observed": r["detail"], "note": "the harness could not print this case"})

    # coverage
    distinct, nontriv = set(), 0
    out_hist = collections.Counter()
    rule_hist = collections.Counter()
    panic_rules = collections.Counter()
    via_hist = collections.Counter()
    for i in ok_idx:
        o = res[i]["outcome"]
        kind = "Ok" if o.startswith("(Ok") else "Err" if o.startswith("(Err") else "Panic"
        out_hist[kind] += 1
        via_hist[jobs[i]["via"]] += 1
        ks = rule_kinds(jobs[i])
        for k in set(ks):
            rule_hist[k] += 1
        if kind == "Panic":
            for k in set(ks):
                panic_rules[k] += 1
        h = core.canon_hash(strip_job(jobs[i]))
        if h in distinct:
            continue
        distinct.add(h)
        if has(i, 4) and has(i, 128) and has(i, 256):
            nontriv += 1
    cov = {
        "evaluations": len(jobs),
        "distinct_nontrivial": nontriv,
        "rule": "generated schema sets (1-3 packages, structs with array/map/bool/struct/reference/disjunction/constant fields, aliases, composable metadata) x generated rule files (1-3 files, common and language rules, selectors exact / different case / absent / malformed, parameters valid and borderline); distinct by hash of the job; non-trivial = builders well-typed and consistent (inside the claim), the rule files load, some rule selects a builder or an option, and some builder has at least two options",
        "samples": [{"rules": rule_kinds(jobs[i]), "via": jobs[i]["via"], "outcome_prefix": res[i]["outcome"][:200]} for i in ok_idx[len(vengen.seed_jobs()):][:3]],
        "outcome_histogram": dict(out_hist),
        "loaded_via": dict(via_hist),
        "rule_kind_histogram": dict(sorted(rule_hist.items())),
        "single_rule_runs": sum(has(i, 64) for i in ok_idx),
        "panic_outcomes_by_rule_present_C04": dict(sorted(panic_rules.items())),
        "cases_not_judged": {k: v for k, v in st.items() if k != "OK"},
        "mismatches_model_vs_impl": len(mm),
        "propfails_on_impl_by_signature": dict(sigs),
        "traces_validated_against_impl": len(ok_idx) - len(mm),
        "extra_obligations": 0,
    }
    return {"coverage": cov, "unexplained_mismatches": unexplained,
            "search_note": "generated schemas x rule files through the real FromAST and rewrite.Rewriter.ApplyTo (YAML loader / Go constructors); WT, frame_ok and the rule contracts evaluated on its output"}
