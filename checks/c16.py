"""C16 — builders are derived completely and type-correctly from the schemas.

Theorems: coq/Props/C16.v over coq/Model/Builders.v (BuilderGenerator.FromAST).  Tie to the code:
correspondence — the real FromAST on generated schema sets (harness/verifh/builders.go), its
builders compared inside Coq with the model (MISMATCH) and checked against the property as an
independent decidable checker `builders_ok` (coq/Model/Spec16.v) (PROPFAIL)."""
import json
import os

from gen import irgen
from vlib import core, passlib

COQ_TARGETS = ["Props/C16.vo", "Model/Spec16.vo"]
PROPS = "Props/C16.v"
TRUSTED = [
    "hand-written model of FromAST / structObjectToBuilder / structFieldToOption / FieldAssignment / ResolveToType (coq/Model/Builders.v); VeneerTrail not modelled",
    "harness printer harness/verifh/builders.go, ir.go",
]
ASSUMPTIONS = ["the claim is judged on schema sets whose object types resolve (no dangling or cyclic alias) and whose scalar constraints carry an argument; other inputs are C04's subject"]

PREAMBLE = passlib.PREAMBLE % "Model.Spec16"


def gen_case(rng, depth):
    feats = {"resolving": rng.random() < 0.9, "acyclic_aliases": rng.random() < 0.95}
    g = irgen.IRGen(rng, max_depth=depth, features=feats)
    return {"schemas": g.schemas()}


def run(ctx, verdict, replay=None, model_ok=True):
    rng = ctx.rng
    thorough = ctx.tier == "thorough"
    jobs = []
    if replay:
        rp = json.load(open(replay))
        jobs = [rp.get("job") or rp["first_mismatch"]["job"]]
    else:
        cdir = os.path.join(core.VERIF, "corpus", "C16")
        if os.path.isdir(cdir):
            for f in sorted(os.listdir(cdir)):
                jobs.append(json.load(open(os.path.join(cdir, f)))["job"])
        for _ in range(8000 if thorough else 500):
            jobs.append(gen_case(rng, 5 if thorough else 4))
    binp = core.build_harness(ctx)
    lines = core.run_harness_robust(binp, "builders", [json.dumps(j) for j in jobs], timeout=120)
    res = []
    for ln in lines:
        if ln is None:
            res.append({"status": "FATAL"})
            continue
        p = ln.split("\t")
        if len(p) != 2 or p[0] == "LOADPANIC":
            res.append({"status": "BAD", "detail": ln[:300]})
            continue
        res.append({"status": "OK", "input": p[0], "outcome": p[1]})
    ok_idx = [i for i, r in enumerate(res) if r["status"] == "OK"]
    ctx.log("implementation ran: %d cases (%d returned, %d killed the process)" % (len(res), len(ok_idx), len(res) - len(ok_idx)))

    shard = 120
    shards = [ok_idx[i:i + shard] for i in range(0, len(ok_idx), shard)]

    def do(k):
        ids = shards[k]
        cases = "[" + ";\n".join("(%s, %s)" % (res[i]["input"], res[i]["outcome"]) for i in ids) + "]"
        pre = PREAMBLE + "Definition cases : list bcase :=\n%s.\n" % cases
        r = core.coq_eval_lists(ctx, "cases_C16_%d" % k, pre, [
            ("MM", "indices builders_mismatch cases"), ("PF", "indices builders_propfail cases"),
            ("IC", "indices builders_in_claim cases")])
        return {kk: [ids[x] for x in v] for kk, v in r.items()}

    parts = core.parallel(do, list(range(len(shards))))
    mm = sorted(x for p in parts for x in p["MM"])
    pf = sorted(x for p in parts for x in p["PF"])
    ic = sorted(x for p in parts for x in p["IC"])
    ctx.log("coq evaluated: mismatch=%d propfail=%d in_claim=%d" % (len(mm), len(pf), len(ic)))
    explained = set()
    for i in sorted(pf, key=lambda i: len(res[i]["input"]))[:30]:
        out = res[i]["outcome"]
        kind = "panic" if out.startswith("(Panic") else "wrong-builders"
        verdict.propfail({"what": kind}, {"job": jobs[i], "observed_outcome": out[:4000],
                                          "predicate": "in_claim schemas -> builders_ok schemas (FromAST schemas) (Model/Spec16.v)"})
        explained.add(i)
    explained.update(pf)
    unexplained = [{"job": jobs[i], "observed": res[i]["outcome"][:3000]} for i in mm if i not in explained]
    distinct, nontriv = set(), 0
    hist = {"Ok": 0, "Panic": 0}
    for i in ok_idx:
        hist["Ok" if res[i]["outcome"].startswith("(Ok") else "Panic"] += 1
        h = core.canon_hash(jobs[i])
        if h in distinct:
            continue
        distinct.add(h)
        if i in set(ic) and res[i]["outcome"].count("mkOption") >= 2:
            nontriv += 1
    cov = {
        "evaluations": len(jobs),
        "distinct_nontrivial": nontriv,
        "rule": "generated schema sets (1-3 packages; aliases of structs, constant references, references to constants in other packages, fields of every kind, scalar constraints, defaults); distinct by hash; non-trivial = inside the claim (all aliases resolve) and at least two options derived",
        "samples": [{"objects": [o["name"] for s in jobs[i]["schemas"] for o in s["objects"]], "outcome_prefix": res[i].get("outcome", "")[:300]} for i in ok_idx[:3]],
        "outcome_histogram": hist,
        "cases_in_claim": len(ic),
        "process_killed_cases_not_judged_here": len(res) - len(ok_idx),
        "mismatches_model_vs_impl": len(mm),
        "propfails_on_impl": len(pf),
        "traces_validated_against_impl": len(ok_idx) - len(mm),
    }
    return {"coverage": cov, "unexplained_mismatches": unexplained,
            "search_note": "generated schema sets through the real FromAST; checker builders_ok evaluated on its output"}
