"""C08 — generated Validate() and strict decoding reject exactly what the schema forbids.

Theorems: coq/Props/C08.v over the models of templates/types/struct_validation_method.tmpl
(coq/Model/GoSemValidate.v) and struct.strict.json_unmarshal.tmpl + the two disjunction variants
(coq/Model/GoSemStrict.v), against the independent specifications of coq/Model/GoSemSpec08.v
(`violations`: every constraint at any depth through any reference; `strict_ok`: the property's four
conditions, recursively).
Tie to the code: correspondence.  Generated schemas (three formats) -> real cog -> compiled driver;
valid documents and single-fault documents (unknown key, missing required, null for non-nullable,
wrong JSON type, bound off by one, length off by one; fault kind and path recorded).  Observed:
Validate() error paths, strict-decoder verdict.  Inside Coq: model vs observed (MISMATCH) and
specification vs observed (PROPFAIL).  Independent oracle: python jsonschema / kin-openapi / CUE on the
same documents (a document they accept must validate and strictly decode; an injected fault of a kind
the strict decoder / Validate is responsible for must be caught)."""
import json
import os
import re

from gen import srcgen
from vlib import core, gencode

COQ_TARGETS = ["Props/C08.vo", "Model/GoSemChecks.vo"]
PROPS = "Props/C08.v"
TRUSTED = [
    "hand-written Gallina model of the generated Validate / UnmarshalJSONStrict code (coq/Model/GoSemValidate.v, GoSemStrict.v) and of encoding/json (GoSemDecode.v), validated only on the generated cases; error texts are not modelled (BuildError paths are)",
    "specifications `violations` / `strict_ok` (coq/Model/GoSemSpec08.v) are written from the IR: a constraint a front-end drops is invisible to them and is only caught by the reference-validator oracle",
    "reference validators python jsonschema 4.x (Draft7, date-time format on), kin-openapi VisitJSON, CUE Unify+Validate; harness/verifh_gen; drivers/go/main.go; gen/srcgen.py",
    "numbers within 15 significant digits, integers within 2^53, ASCII identifiers",
]
ASSUMPTIONS = ["documents are well-formed JSON; the Go value validated is the one encoding/json decoded from the document"]

EVAL_DEFS = [("UNM", "case_unmodelled"), ("MM_STD", "mm_std"), ("MM_STRICT", "mm_strict"), ("MM_VAL", "mm_validate"),
             ("PF_MISSED", "pf_val_missed"), ("PF_SPURIOUS", "pf_val_spurious"),
             ("PF_OVERACCEPT", "pf_strict_overaccept"), ("PF_OVERREJECT", "pf_strict_overreject"),
             ("PF_PANIC", "pf_panic"), ("ALIAS", "case_alias_constraints"), ("MPANIC", "model_strict_panics"), ("MM_SPEC08", "mm_c08_spec")]

STRICT_FAULTS = ("unknown_key", "missing_required", "null_non_nullable", "wrong_type")
VALIDATE_FAULTS = ("bound_off_by_one", "length_off_by_one")


def code_shapes(batch, sid):
    """syntactic shapes of the generated strict decoder that explain a rejection/panic"""
    out = []
    try:
        gp = batch.gen[sid].objects[0]["gopkg"]
        text = open(os.path.join(batch.module_dir, gp, "types_gen.go")).read()
    except Exception:
        return out
    if re.search(r"json\.Unmarshal\(partialMap\[key\d+\], &partialMap\)", text):
        out.append("nested-map-reads-shadowed-variable")
    if re.search(r"json\.Unmarshal\(partialArray\[i\d+\], &partialArray\)", text):
        out.append("nested-array-reads-shadowed-variable")
    if "cog.ToPtr(append(*" in text:
        out.append("append-through-nil-pointer-to-named-array")
    return out


def shape_causes(shapes, panicked):
    """one cause per generated-code shape that can explain the outcome: a panic comes from the array shapes
    (index into the shadowed empty slice, append through a nil pointer), an error return from the map shape"""
    if panicked:
        return ["panic:" + s for s in shapes if "array" in s]
    return [s for s in shapes if "map" in s]


def dup_spoils_datetime(doc):
    """a member name written twice, once with a date-time and once with a string that is not one.  encoding/json
    decodes EVERY duplicate of a map[string]time.Time entry (the reference validators and the model keep the
    last one), so the discarded duplicate alone fails the decode: documents with duplicate member names are outside
    the property's domain, and this is the one place where a duplicate changes a verdict"""
    if isinstance(doc, srcgen.DupObj):
        by = {}
        for k, v in doc.pairs:
            by.setdefault(k, []).append(v)
        for vs in by.values():
            strs = [v for v in vs if isinstance(v, str)]
            if len(vs) > 1 and any(srcgen._STRESS_TS.match(v) for v in strs) and any(not srcgen._STRESS_TS.match(v) for v in strs):
                return True
        return any(dup_spoils_datetime(v) for _, v in doc.pairs)
    if isinstance(doc, dict):
        return any(dup_spoils_datetime(v) for v in doc.values())
    if isinstance(doc, list):
        return any(dup_spoils_datetime(v) for v in doc)
    return False


def has_dup(doc):
    if isinstance(doc, srcgen.DupObj):
        return True
    if isinstance(doc, dict):
        return any(has_dup(v) for v in doc.values())
    if isinstance(doc, list):
        return any(has_dup(v) for v in doc)
    return False


def has_null_element(doc):
    if isinstance(doc, list):
        return any(x is None or has_null_element(x) for x in doc)
    if isinstance(doc, dict):
        return any(has_null_element(v) for v in doc.values())
    if isinstance(doc, srcgen.DupObj):
        return any(has_null_element(v) for _, v in doc.pairs)
    return False


def null_positions(schema, doc):
    """where the nulls of a document sit according to the Src schema: {"array-element", "map-value", "member", "other"}"""
    out = set()
    if not schema or not schema.get("defs"):
        return {"other"} if "null" in srcgen.dumps(doc) else out
    defs = {d["name"]: d["t"] for d in schema["defs"]}

    def res(t, fuel=20):
        while t is not None and t["k"] == "ref" and fuel:
            t, fuel = defs.get(t["name"]), fuel - 1
        return t

    def walk(t, v):
        t = res(t)
        if isinstance(v, srcgen.DupObj):
            v = dict(v.pairs)
        if t is None or t["k"] in ("any", "union", "dunion"):
            if v is not None and "null" in srcgen.dumps(v):
                out.add("other")
            return
        if t["k"] == "struct" and isinstance(v, dict):
            byname = {f["name"]: f for f in t["fields"]}
            for k_, x in v.items():
                f = byname.get(k_)
                if x is None:
                    out.add("member")
                elif f is not None:
                    walk(f["t"], x)
        elif t["k"] == "map" and isinstance(v, dict):
            for x in v.values():
                if x is None:
                    out.add("map-value")
                else:
                    walk(t["of"], x)
        elif t["k"] == "array" and isinstance(v, list):
            for x in v:
                if x is None:
                    out.add("array-element")
                else:
                    walk(t["of"], x)
    walk(defs.get(schema["root"]), doc)
    return out


def through_union_of_structs(schema, path):
    """does the document path cross a field whose Src type is a discriminated union of structs?"""
    if not schema or not schema.get("defs"):
        return False
    defs = {d["name"]: d["t"] for d in schema["defs"]}
    t = defs.get(schema["root"])
    for seg in path:
        while t is not None and t["k"] == "ref":
            t = defs.get(t["name"])
        if t is None:
            return False
        if t["k"] == "dunion":
            return True
        if t["k"] == "struct":
            f = [f for f in t["fields"] if f["name"] == seg]
            t = f[0]["t"] if f else None
        elif t["k"] in ("array", "map"):
            t = t["of"]
        else:
            return False
    while t is not None and t["k"] == "ref":
        t = defs.get(t["name"])
    return t is not None and t["k"] == "dunion"


def _has_constraint(t, defs, fuel=12):
    if t is None or fuel == 0:
        return False
    k = t["k"]
    if k in ("int", "float"):
        return any(b in t for b in ("ge", "gt", "le", "lt"))
    if k == "string":
        return "minlen" in t or "maxlen" in t
    if k in ("array", "map"):
        return _has_constraint(t["of"], defs, fuel - 1)
    if k == "ref":
        return _has_constraint(defs.get(t["name"]), defs, fuel - 1)
    if k == "struct":
        return any(_has_constraint(f["t"], defs, fuel - 1) for f in t["fields"])
    return False


def constraints_behind_non_struct_def(schema):
    """the schema has a definition that is NOT a struct (nor an alias chain ending at a struct) and carries a
    constraint: the registered defect (resolvesToConstraints follows a reference only when it resolves to a struct)"""
    if not schema or not schema.get("defs"):
        return None
    defs = {d["name"]: d["t"] for d in schema["defs"]}
    for d in schema["defs"]:
        t, fuel = d["t"], 20
        while t is not None and t["k"] == "ref" and fuel:
            t, fuel = defs.get(t["name"]), fuel - 1
        if t is not None and t["k"] not in ("struct", "dunion") and _has_constraint(t, defs):
            return True
    return False


def path_crosses_non_struct_ref(schema, tname, path):
    """the document path goes through a reference whose target (following alias chains) is not a struct"""
    if not schema or not schema.get("defs"):
        return None
    defs = {d["name"]: d["t"] for d in schema["defs"]}
    t = defs.get(tname)
    for seg in list(path) + [None]:
        fuel = 20
        while t is not None and t["k"] == "ref" and fuel:
            t, fuel = defs.get(t["name"]), fuel - 1
            if t is not None and t["k"] not in ("struct", "ref", "dunion"):
                return True
        if t is None or seg is None:
            break
        if t["k"] == "struct":
            f = [f for f in t["fields"] if f["name"] == seg]
            t = f[0]["t"] if f else None
        elif t["k"] in ("array", "map"):
            t = t["of"]
        elif t["k"] == "dunion":
            cand = [defs.get(n) for n in t["of"]]
            fs = [f for c in cand if c for f in c["fields"] if f["name"] == seg]
            t = fs[0]["t"] if fs else None
        else:
            break
    return False


def doc_at(doc, pathstr):
    """value of a document at a BuildError path such as  a.b[3].c[key].d  (KeyError when absent)"""
    cur = doc
    for seg in re.findall(r"\[[^\]]*\]|[^.\[\]]+", pathstr):
        if seg.startswith("["):
            key = seg[1:-1]
            cur = cur[int(key)] if isinstance(cur, list) else cur[key]
        else:
            cur = cur[seg]
    return cur


def member_at(schema, tname, pathstr):
    """the Src struct member (field dict) a BuildError path such as a.b[3].c[key].d ends at, or None"""
    if not schema or not schema.get("defs"):
        return None
    defs = {d["name"]: d["t"] for d in schema["defs"]}

    def res(t, fuel=20):
        while t is not None and t["k"] == "ref" and fuel:
            t, fuel = defs.get(t["name"]), fuel - 1
        return t
    t, f = defs.get(tname), None
    for seg in re.findall(r"\[[^\]]*\]|[^.\[\]]+", pathstr):
        t = res(t)
        if t is None:
            return None
        if seg.startswith("["):
            if t["k"] not in ("array", "map"):
                return None
            t, f = t["of"], None
        else:
            if t["k"] != "struct":
                return None
            fs = [x for x in t["fields"] if x["name"] == seg]
            if not fs:
                return None
            f, t = fs[0], fs[0]["t"]
    return f


def null_required_cause(doc, spaths, fmt, schema=None, tname=None):
    """every complaint of the strict decoder is about a member that is null in the document.  The registered
    defect is about members whose schema allows null WITHOUT saying `nullable` on a type cog tracks: `any`
    members, and (OpenAPI) members whose nullability comes through a reference; a null refused for any other
    nullable member (a scalar, a union, ...) is a different root cause and is named after the member's type."""
    try:
        if spaths and all(doc_at(doc, p) is None for p in spaths):
            kinds = set()
            for p in spaths:
                f = member_at(schema, tname, p)
                if f is None:
                    continue
                defs = {d["name"]: d["t"] for d in schema["defs"]}
                t, fuel = f["t"], 20
                while t is not None and t["k"] == "ref" and fuel:
                    t, fuel = defs.get(t["name"]), fuel - 1
                k = "any" if (t is not None and t["k"] == "any") else \
                    "ref" if (fmt == "openapi" and f["t"]["k"] == "ref") else f["t"]["k"]
                if k not in ("any", "ref"):
                    kinds.add(k)
            if kinds:
                return "null-refused-for-required-nullable-member-of-type:%s:%s" % ("+".join(sorted(kinds)), fmt)
            return "null-for-required-member-the-schema-allows-null-for:" + fmt
    except Exception:
        pass
    return None


def null_prefix_cause(doc, paths, fmt):
    """a reported path runs through a member that is null in the document (the generated type has no
    way to hold that null: it decoded to a zero value)"""
    try:
        for p in paths or []:
            segs = re.findall(r"\[[^\]]*\]|[^.\[\]]+", p)
            for k in range(1, len(segs) + 1):
                pre = "".join(s_ if s_.startswith("[") else ("." + s_ if i else s_) for i, s_ in enumerate(segs[:k]))
                try:
                    if doc_at(doc, pre) is None:
                        return "null-for-member-the-schema-allows-null-for:" + fmt
                except Exception:
                    break
    except Exception:
        pass
    return None


def has_fraction_zero(text):
    return re.search(r"\d\.0+(?=[,}\]\s])", text) is not None


def run(ctx, verdict, replay=None, model_ok=True):
    rng = ctx.rng
    thorough = ctx.tier == "thorough"
    camp = gencode.Campaign(ctx, "c08", closed=True)
    plan, replay_jobs = [], []
    if replay:
        for job in gencode.Campaign.replay_jobs(replay):
            replay_jobs.append((camp.add_schema_text(job["pkg"], job["fmt"], job["schema_text"]), job))
    else:
        cdir = os.path.join(core.VERIF, "corpus", "C08")
        if os.path.isdir(cdir):
            for f in sorted(os.listdir(cdir)):
                job = json.load(open(os.path.join(cdir, f)))["job"]
                job = dict(job, pkg="k%03d" % len(replay_jobs))
                job["schema_text"] = re.sub(r"(?m)^package \w+", "package " + job["pkg"], job["schema_text"])
                replay_jobs.append((camp.add_schema_text(job["pkg"], job["fmt"], job["schema_text"]), job))
        per_fmt = 260 if thorough else 18
        k = 0
        for fmt in srcgen.FORMATS:
            for _ in range(per_fmt):
                s = srcgen.SrcGen(rng, max_depth=4 if thorough else 3, fmt=fmt,
                                  features=srcgen.ALL_FEATURES + srcgen.EXTRA_FEATURES + ("alias_of_struct",)).schema("s%03d" % k)
                k += 1
                camp.add_schema(s, fmt)
                plan.append((s["pkg"], s))
    batch = camp.prepare()
    ctx.log("cog ran on %d schemas: %d generated, %d rejected by cog, %d do not compile, %d needed an unused import removed"
            % (len(batch.schemas), len([g for g in batch.gen.values() if g.status == "OK"]),
               len([g for g in batch.gen.values() if g.status != "OK"]), len(batch.compile_errors), len(batch.import_fixups)))
    ok = set(batch.ok_sids())
    for sid, job in replay_jobs:
        if sid in ok:
            camp.add_job(sid, job["type"], [srcgen.loads(d) for d in job["docs"]], meta=job.get("meta"))
    nvalid, nfault = (60, 150) if thorough else (24, 42)
    for sid, s in plan:
        if sid not in ok:
            continue
        names = {o["name"] for o in batch.struct_objects(sid)}
        if s["root"] not in names:
            continue
        dg = srcgen.DocGen(rng, s)
        docs = [(dg.valid(), None, None) for _ in range(nvalid)]
        for _ in range(nfault):
            f = dg.faulty()
            if f:
                docs.append(f)
        rng.shuffle(docs)
        for i in range(0, len(docs), 3):
            grp = docs[i:i + 3]
            pydocs = [d for d, _, _ in grp]
            faults = [[k_, list(p)] if k_ else None for _, k_, p in grp]
            if rng.random() < 0.05:
                pydocs = [srcgen.stress_doc(rng, d) for d in pydocs]
                faults = ["stress"] * len(pydocs)
            camp.add_job(sid, s["root"], pydocs, meta={"faults": faults})
    for j in camp.jobs:
        j["ops"] = ["std", "strict", "validate"]
    camp.run()
    live = camp.live()
    ctx.log("driver ran %d jobs (%d survived)" % (len(camp.jobs), len(live)))

    # ---- oracle: reference validators on the same documents
    items = []
    for i in live:
        j = camp.jobs[i]
        items.append({"fmt": batch.schemas[j["sid"]][1], "path": batch.schema_path(j["sid"]), "type": j["type"], "docs": j["docs"]})
    verdicts = gencode.ref_validate(ctx, items)
    ref = {i: v for i, v in zip(live, verdicts)}
    ctx.log("reference validators ran on %d document groups" % len(items))

    ev = camp.evaluate("cases_C08", "Model.GoSemChecks", EVAL_DEFS)
    ctx.log("coq evaluated: " + " ".join("%s=%d" % (k, len(v)) for k, v in ev.items()))
    alias, mpanic = set(ev["ALIAS"]), set(ev["MPANIC"])

    budget = {"n": 40}

    def report(sig, i, extra=None):
        if budget["n"] <= 0:
            return
        payload = {"job": camp.job_payload(i), "observed": camp.results[i], "reference_validator": ref.get(i)}
        payload.update(extra or {})
        if verdict.propfail(sig, payload) == "violation":
            budget["n"] -= 1

    by_size = lambda idxs: sorted(idxs, key=lambda i: len(json.dumps(camp.jobs[i]["docs"])))
    schema_by0 = {sid: s for sid, s in plan}
    for i in by_size(ev["PF_MISSED"]):
        nsd = constraints_behind_non_struct_def(schema_by0.get(camp.jobs[i]["sid"]))
        report({"part": "validate", "kind": "violation-not-reported",
                "cause": "constraint-behind-non-struct-reference" if (i in alias and nsd is not False) else "other"}, i,
               {"predicate": "pf_val_missed: Model/GoSemSpec08.v violations lists a path Validate() did not report"})
    for i in by_size(ev["PF_SPURIOUS"]):
        report({"part": "validate", "kind": "error-without-violation", "cause": "other"}, i,
               {"predicate": "pf_val_spurious"})
    for i in by_size(ev["PF_OVERREJECT"]):
        j = camp.jobs[i]
        if any(dup_spoils_datetime(d) for d in j["pydocs"]):
            continue        # assumption: documents without duplicate member names (see dup_spoils_datetime)
        shapes = code_shapes(batch, j["sid"])
        panicked = any(x["strict"] == "panic" for x in camp.results[i]["res"])
        causes = shape_causes(shapes, panicked)
        if not causes:
            if panicked:
                causes = ["panic:other"]
            elif any(has_fraction_zero(d) for d in j["docs"]):
                causes = ["integer-written-with-fraction"]
            elif "stress" in (j["meta"].get("faults") or []):
                causes = ["stress-document"]
            else:
                causes = ["other"]
        for cause in causes:
            report({"part": "strict", "kind": "rejects-document-meeting-the-four-conditions", "cause": cause}, i,
                   {"predicate": "pf_strict_overreject: strict_ok = true but UnmarshalJSONStrict failed"})
    for i in by_size(ev["PF_OVERACCEPT"]):
        j = camp.jobs[i]
        if any(has_dup(d) for d in j["pydocs"]):
            continue        # assumption: documents without duplicate member names
        nulls = set()
        for d in j["pydocs"]:
            nulls |= null_positions(schema_by0.get(j["sid"]), d)
        if any(has_null_element(d) for d in j["pydocs"]) or "map-value" in nulls:
            # (a null member is legal for optional / nullable members; only collection elements are suspect here)
            cause = "null-element-of-non-nullable-collection"
        elif "null" in " ".join(j["docs"]):
            cause = "null-member-or-other"
        else:
            cause = "other"
        report({"part": "strict", "kind": "accepts-document-breaking-a-condition", "cause": cause}, i,
               {"predicate": "pf_strict_overaccept: strict_ok = false but UnmarshalJSONStrict succeeded"})
    for i in by_size(ev["PF_PANIC"]):
        if i in ev["PF_OVERREJECT"]:
            continue
        for cause in [c_[len("panic:"):] for c_ in shape_causes(code_shapes(batch, camp.jobs[i]["sid"]), True)] or ["other"]:
            report({"part": "strict", "kind": "panic", "cause": cause}, i)

    # ---- oracle-level failures (source-schema semantics, catches constraints lost by a front-end)
    oracle = {"valid_docs": 0, "valid_rejected_by_reference": 0, "faulty_docs": 0, "faulty_accepted_by_reference": 0,
              "valid_but_validate_errors": 0, "valid_but_strict_rejects": 0, "fault_not_caught_by_validate": 0,
              "fault_not_caught_by_strict": 0}
    fault_hist, depth_hist = {}, {"top": 0, "below": 0}
    ref_rejects = []
    schema_by0 = {sid: s for sid, s in plan}
    for i in live:
        j, r, v = camp.jobs[i], camp.results[i], ref.get(i)
        faults = j["meta"].get("faults") or [None] * len(j["docs"])
        for d, (x, fl) in enumerate(zip(r["res"], faults)):
            if fl == "stress" or v is None or d >= len(v):
                continue
            accepted = v[d] == "1"
            fmt = batch.schemas[j["sid"]][1]
            if fl is None:
                oracle["valid_docs"] += 1
                if not accepted:
                    oracle["valid_rejected_by_reference"] += 1
                    if len(ref_rejects) < 6:
                        ref_rejects.append({"format": fmt, "doc": j["docs"][d], "schema": camp.texts[j["sid"]][:3000]})
                    continue
                if x["std"] == "ok" and x["vals"] == "err":
                    oracle["valid_but_validate_errors"] += 1
                    report({"part": "validate", "kind": "error-on-document-the-schema-accepts",
                            "cause": null_prefix_cause(j["pydocs"][d], x.get("val"), fmt) or fmt}, i, {"doc_index": d})
                if x["strict"] in ("err", "panic"):
                    oracle["valid_but_strict_rejects"] += 1
                    shapes = code_shapes(batch, j["sid"])
                    cause = null_required_cause(j["pydocs"][d], x.get("spaths"), fmt, schema_by0.get(j["sid"]), j["type"]) \
                        if x["strict"] == "err" else None
                    causes = [cause] if cause is not None else (
                        shape_causes(shapes, x["strict"] == "panic") or
                        [("panic:" if x["strict"] == "panic" else "") + fmt + "-front-end-or-other"])
                    for cause in causes:
                        report({"part": "strict", "kind": "rejects-document-the-schema-accepts", "cause": cause}, i, {"doc_index": d})
            else:
                kind, path = fl
                oracle["faulty_docs"] += 1
                fault_hist[kind] = fault_hist.get(kind, 0) + 1
                depth_hist["below" if len(path) > 1 else "top"] += 1
                if accepted:
                    oracle["faulty_accepted_by_reference"] += 1
                    continue
                if kind in VALIDATE_FAULTS and x["std"] == "ok" and x["vals"] == "ok":
                    oracle["fault_not_caught_by_validate"] += 1
                    crosses = path_crosses_non_struct_ref(schema_by0.get(j["sid"]), j["type"], path)
                    cause = ("constraint-behind-non-struct-reference" if (i in alias and crosses is not False) else
                             "union-of-structs-degraded-to-any:" + fmt
                             if fmt == "openapi" and through_union_of_structs(schema_by0.get(j["sid"]), path)
                             else fmt + "-front-end-or-other")
                    report({"part": "validate", "kind": "injected-violation-not-reported", "cause": cause}, i,
                           {"doc_index": d, "fault": fl})
                if kind in STRICT_FAULTS and x["strict"] == "ok":
                    oracle["fault_not_caught_by_strict"] += 1
                    cause = ("union-of-structs-degraded-to-any:" + fmt
                             if fmt == "openapi" and through_union_of_structs(schema_by0.get(j["sid"]), path)
                             else kind + ":" + fmt)
                    report({"part": "strict", "kind": "injected-fault-accepted", "cause": cause}, i,
                           {"doc_index": d, "fault": fl})

    mm = sorted(set(ev["MM_STD"]) | set(ev["MM_STRICT"]) | set(ev["MM_VAL"]) | set(ev["MM_SPEC08"]))
    dead = [i for i, r in enumerate(camp.results) if r is None]
    for i in dead[:3]:
        verdict.propfail({"part": "driver", "kind": "process-died", "cause": "fatal"},
                         {"job": camp.job_payload(i), "observed": "driver process died (fatal error) or timed out"})
    unexplained = [{"job": camp.job_payload(i), "observed": camp.results[i],
                    "which": [k for k in ("MM_STD", "MM_STRICT", "MM_VAL", "MM_SPEC08") if i in ev[k]]} for i in mm[:20]]

    # ---- coverage (measured)
    unm = set(ev["UNM"])
    schema_by = {sid: s for sid, s in plan}
    distinct, nontriv, ndocs = set(), 0, 0
    cons_hist, out_hist = {}, {}
    for i in live:
        j, r = camp.jobs[i], camp.results[i]
        for x in r["res"]:
            ndocs += 1
            key = "validate_%s/strict_%s" % (x["vals"] or "-", x["strict"] or "-")
            out_hist[key] = out_hist.get(key, 0) + 1
        h = core.canon_hash([j["sid"], j["docs"]])
        if h in distinct or i in unm:
            continue
        distinct.add(h)
        s = schema_by.get(j["sid"])
        cs = set()
        faults = j["meta"].get("faults") or []
        if s is not None and "stress" not in faults:
            for d in j["pydocs"]:
                try:
                    cs |= srcgen.constructs(s, d, j["type"])
                except Exception:
                    pass
        for c in cs:
            cons_hist[c] = cons_hist.get(c, 0) + 1
        if len(cs) >= 3 and any(f for f in faults if f and f != "stress"):
            nontriv += 1
    gen_hist = {}
    for sid, g in batch.gen.items():
        key = batch.schemas[sid][1] + ":" + (g.status if g.status == "OK" else g.status + "@" + g.stage)
        gen_hist[key] = gen_hist.get(key, 0) + 1
    samples = [{"format": batch.schemas[camp.jobs[i]["sid"]][1], "docs": camp.jobs[i]["docs"],
                "faults": camp.jobs[i]["meta"].get("faults"), "reference": ref.get(i),
                "observed": [{"validate": x["vals"], "paths": x["val"], "strict": x["strict"]} for x in camp.results[i]["res"]]}
               for i in live[:3]]
    cov = {
        "evaluations": ndocs,
        "document_groups": len(live),
        "distinct_nontrivial": nontriv,
        "rule": "one evaluation = one document decoded, validated and strictly decoded by a generated type; groups of 3 documents; distinct by hash of (schema, documents); non-trivial = the group exercises >= 3 constructs of its schema and contains an injected fault; unmodelled groups not counted",
        "samples": samples,
        "schemas": len(batch.schemas),
        "cog_outcomes_by_format": gen_hist,
        "packages_not_compiling": len(batch.compile_errors),
        "packages_with_unused_import_removed": len(batch.import_fixups),
        "fault_kind_histogram": fault_hist,
        "fault_depth_histogram": depth_hist,
        "construct_histogram": cons_hist,
        "outcome_histogram": out_hist,
        "oracle": oracle,
        "valid_documents_rejected_by_reference_examples": ref_rejects,
        "unmodelled_groups": len(ev["UNM"]),
        "mismatches_model_vs_impl": {k: len(ev[k]) for k in ("MM_STD", "MM_STRICT", "MM_VAL", "MM_SPEC08")},
        "propfails_spec_vs_impl": {k: len(ev[k]) for k in ("PF_MISSED", "PF_SPURIOUS", "PF_OVERACCEPT", "PF_OVERREJECT", "PF_PANIC")},
        "cases_validated_against_impl": len(live) - len(ev["UNM"]) - len(mm),
    }
    return {"coverage": cov, "unexplained_mismatches": unexplained,
            "search_note": "generated schemas x (valid + single-fault documents); Validate paths compared with `violations`, strict verdict with `strict_ok`, both with the reference validators"}
