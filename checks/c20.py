"""C20 — pipeline, schema-transformation and builder-transformation YAML files are decoded strictly,
and the published JSON Schemas accept exactly the keys the loaders accept.

Translator (regen, every run): harness/verifh_c20 `keys` (compiled from /repo's working tree with the
overlay mechanism) walks by reflection what yaml.v3 can decode into from codegen.Pipeline,
yaml.Compiler and yaml.Veneers (yaml.v3 naming rules), reads the As... union dispatches and the
yaml decoders with go/parser; gen/configgen.py reads schemas/*.json.  Both key forests, the
conversion tables, the union registry and the decoder table go to coq/Gen/ConfigKeys_gen.v.
Theorems: coq/Props/C20.v.  Correspondence: the REAL loaders (PipelineFromFile, CompilerLoader.Load,
VeneersLoader.RewriterFrom) and python jsonschema on schemas/*.json are run on documents generated
from the regenerated forest -- a minimal valid document per key path, each with one unknown key
injected at every mapping node in turn (exhaustive), rule entries without action, wrong value
types -- and compared inside Coq with the model (MISMATCH) and with the property (PROPFAIL)."""
import json
import os
import shutil
import subprocess

from gen import configgen as cg
from vlib import core

COQ_TARGETS = ["Props/C20.vo", "Model/Config.vo", "Gen/ConfigKeys_gen.vo"]
PROPS = "Props/C20.v"
HARNESS = "verifh_c20"
TRUSTED = [
    "translator, loader side: harness/verifh_c20/keys.go re-implements yaml.v3's getStructInfo naming rules over reflect (tag name, else lower-cased field name, `,inline`, `-`, unexported skipped; custom UnmarshalYAML => opaque, listed, never equal to anything); cross-checked behaviourally: every declared key is exercised by a document the real loader must accept, every mapping node by an unknown key it must refuse",
    "translator, schema side: gen/configgen.py reads $ref/$defs/properties/additionalProperties/items/type; any other keyword that bears on keys makes the position `unknown` (obligation fails); value keywords (description, required, enum, ...) are ignored and counted; cross-checked against python jsonschema (Draft 2020-12) on every generated document",
    "go/parser recognition of the As... if-chains (union dispatch), of `x == \"\"` guards and of KnownFields(true) on yaml.NewDecoder is syntactic; what CompilerLoader.Load / VeneersLoader.load do with the decoded root (convert every entry of passes / builders / options, require `package`) is written by hand in gen/configgen.py (ROOT_EACH, ROOT_NONEMPTY); both are validated by the correspondence only",
    "yaml.v3 itself is modelled (Model/Config.v decode: unknown field with KnownFields, shape and scalar-kind mismatches, duplicate keys, null), not verified; documents are generated as JSON-flow YAML with quoted strings, no anchors, aliases, merge keys, tags or multi-document streams",
    "python jsonschema 4.x is the editor-side oracle; harness printer is JSON (accept/reject + coarse error class; error texts are never compared)",
]
ASSUMPTIONS = [
    "string VALUE formats (object/field reference syntax `pkg.Object[.field]`, `builder.option`) are not modelled: base documents use a string filler found by probing the real loader (a, a.b, a.b.c)",
    "required-ness and value types may differ between the published schemas and the loaders (the schemas have no `required`, no oneOf for unions; yaml.v3 accepts null and int-for-string): only KEY acceptance is compared for violations, other discrepancies are reported under coverage.non_key_discrepancies",
    "free-form positions (Go map[string]T / any; schema objects without properties / `true`) accept any key by design and are outside `part of the configuration language`; they are listed under coverage.free_form_positions",
    "the top-level document is a mapping: a null document (`~`, or a file holding only `---`) is given to the loaders and reported under coverage.loader_panics but not compared with the model -- CompilerLoader.Load and VeneersLoader.load decode into a pointer to a pointer, null leaves it nil and the next line dereferences it (a panic; a C04 matter, the file is not accepted either way)",
    "unions of codegen.Input and codegen.OutputLanguage are checked by cog after loading (Input.loader, Pipeline.OutputLanguages), not by PipelineFromFile: reported under coverage.pipeline_later_stage, not part of the property's `rule entry`",
]
UNKNOWN_KEY = "verif_unknown_key"
PREAMBLE = ("From Cog Require Import Model.Config Gen.ConfigKeys_gen.\nImport ListNotations.\n"
            "Local Open Scope string_scope.\n")


# ------------------------------------------------------------------ translator
def build(ctx):
    if getattr(ctx, "c20_bin", None) is None:
        ctx.c20_bin = core.build_harness(ctx, HARNESS)
    return ctx.c20_bin


def run_translator(ctx):
    binp = build(ctx)
    p = subprocess.run([binp, "keys", core.REPO], stdout=subprocess.PIPE, stderr=subprocess.PIPE, text=True,
                       env=core.GOENV, timeout=600)
    if p.returncode != 0:
        raise RuntimeError("verifh_c20 keys failed: " + p.stderr[-2000:])
    keys = json.loads(p.stdout)
    schema_docs = {}
    for f in cg.FILES:
        try:
            schema_docs[f] = json.load(open(os.path.join(core.REPO, "schemas", f + ".json")))
        except (OSError, ValueError):
            schema_docs[f] = None
    return cg.translate(keys, schema_docs)


def regen(ctx):
    T = run_translator(ctx)
    core.write_if_changed(os.path.join(core.COQ, "Gen", "ConfigKeys_gen.v"), cg.render_gen(T))
    ctx.c20 = T
    return T


# ------------------------------------------------------------------ case generation
def gens(T):
    return {f: cg.DocGen(T["files"][f]["loader"], T["files"][f]["conv"], cg.declared_members(T, f)) for f in cg.FILES}


def wrong_type_leaves(n):
    """(name, leaf, free): free = the model accepts such a value, so it is only generated where no string of the
    document needs a particular syntax (the loaders parse some strings after decoding)"""
    k = n["k"]
    if k == "obj":
        return [("scalar-for-struct", ["str", "x"], False), ("sequence-for-struct", ["seq", []], False),
                ("null-for-struct", ["null"], True)]
    if k == "seq":
        return [("mapping-for-sequence", ["map", []], False), ("scalar-for-sequence", ["str", "x"], False),
                ("null-for-sequence", ["null"], True)]
    if k == "map":
        return [("sequence-for-map", ["seq", []], False), ("scalar-for-map", ["str", "x"], False)]
    if k == "scalar":
        t = n["t"]
        out = [("mapping-for-scalar", ["map", [["q", ["str", "x"]]]], False), ("null-for-scalar", ["null"], True)]
        if t == "string":
            out += [("int-for-string", ["int"], True), ("bool-for-string", ["bool"], True)]
        elif t == "bool":
            out += [("string-for-bool", ["str", "x"], False), ("int-for-bool", ["int"], False)]
        else:
            out += [("string-for-number", ["str", "x"], False), ("bool-for-number", ["bool"], False)]
        return out
    return [("mapping-under-any", ["map", [["free", ["map", [["deep", ["seq", [["int"]]]]]]]]], False),
            ("sequence-under-any", ["seq", [["bool"]]], False)]


def calibrate(impl, items, keep_unsat=True):
    """items: [(file, document with string placeholders)].  The loaders parse some strings after decoding
    (object / field references, builder.option names), which the model does not describe: instantiate the
    placeholders with the first of a / a.b / a.b.c (uniform, then mixed) that the real loader accepts.
    -> (documents, how many had no accepted instantiation: those keep a.b and will show up as failures)"""
    probe, owner = [], []
    for bi, (fname, d) in enumerate(items):
        for v in cg.filler_variants(d):
            probe.append((fname, v))
            owner.append(bi)
    res = impl(probe)
    chosen = {}
    for (fname, v), bi, r in zip(probe, owner, res):
        if bi not in chosen and r["ok"]:
            chosen[bi] = v
    out, unsat = [], 0
    for bi, (fname, d) in enumerate(items):
        if bi in chosen:
            out.append(chosen[bi])
        else:
            unsat += 1
            out.append(cg.subst_fill(d, "a.b") if keep_unsat else None)
    return out, unsat


def make_cases(ctx, T, impl):
    """impl(list of (file, doc)) -> list of result dicts.  Returns (cases, stats)."""
    rng = ctx.rng
    thorough = ctx.tier == "thorough"
    G = gens(T)
    cases = []
    stats = {"key_paths": {}, "filler": {}, "base_without_accepted_filler": 0}

    def add(fname, kind, base, doc, label, **kw):
        cases.append(dict(file=fname, kind=kind, base=base, doc=doc, label=label, **kw))

    # -- (a) base documents, one per key path; string placeholders instantiated by probing
    bases = []
    for fname in cg.FILES:
        g = G[fname]
        paths = g.key_paths(2 if thorough else 1, limit=6000 if thorough else 100000)
        stats["key_paths"][fname] = len(paths)
        for p in paths:
            bases.append((fname, p, g.build(p)))
    docs, unsat = calibrate(impl, [(fname, d) for fname, p, d in bases])
    stats["base_without_accepted_filler"] = unsat
    for bi, (fname, p, d) in enumerate(bases):
        doc = docs[bi]
        strs = sorted({s for s in _strings(doc)})
        key = "/".join(strs) or "-"
        stats["filler"][key] = stats["filler"].get(key, 0) + 1
        bases[bi] = (fname, p, doc)
        add(fname, "base", doc, doc, cg.steps_text(p))

    # -- (b) one unknown key at every mapping node of every base document (exhaustive)
    inj_value = ["str", "x"]
    for fname, p, doc in bases:
        g = G[fname]
        nodes = g.mapping_nodes(doc)
        for (ip, struct, strict_closed, strict) in nodes:
            key = UNKNOWN_KEY
            if struct is None:
                # free-form map: its keys are data and may have a syntax of their own (field references under
                # `defaults`): stay within it by extending a key that is already there
                here = _at(doc, ip)
                if here[0] == "map" and here[1]:
                    key = here[1][0][0] + "x"
            add(fname, "inject", doc, cg.inject(doc, ip, key, inj_value), cg.steps_text(p), path=ip, key=key,
                value=inj_value, struct=struct, strict=bool(strict_closed))
        if thorough and len(nodes) >= 2:
            pairs = [(a, b) for i, a in enumerate(nodes) for b in nodes[i + 1:]]
            if len(pairs) > 6:
                pairs = rng.sample(pairs, 6)
            for a, b in pairs:
                # deeper one first, so that the index path of the second stays valid
                first, second = (a, b) if len(a[0]) >= len(b[0]) else (b, a)
                base2 = cg.inject(doc, first[0], UNKNOWN_KEY + "_1", inj_value)
                add(fname, "inject", base2, cg.inject(base2, second[0], UNKNOWN_KEY, inj_value), cg.steps_text(p) + " (pair)",
                    path=second[0], key=UNKNOWN_KEY, value=inj_value, struct=second[1], strict=bool(second[2]), pair=True)

    # -- (c) entries without action: every union site, emptied / members null / attributes only
    for fname in cg.FILES:
        g = G[fname]
        F = T["files"][fname]
        rule_structs = set(F["rule_sites"])
        for p in g.key_paths(1):
            n = g.node_at_steps(p)
            steps = list(p)
            while n["k"] == "seq":
                n = n["e"]
                steps.append(("elem",))
            if n["k"] != "obj":
                continue
            # (whether or not the dispatch is seen to end in an error: if it does not, that is the failure)
            unions = [c for c in F["conv"].get(n["ref"], []) if c[0] == "union" and len(c[1]) > 1]
            if not unions:
                continue
            keys = unions[0][1]
            leaves = [("empty", ["map", []]), ("first-member-null", ["map", [[keys[0], ["null"]]]]),
                      ("all-members-null", ["map", [[k, ["null"]] for k in keys]])]
            others = [f for f in F["loader"]["defs"][n["ref"]]["fields"] if f["key"] not in keys and not f["nilable"]]
            if others:
                leaves.append(("attributes-only", ["map", [[others[0]["key"], g.minval(others[0]["node"])]]]))
            for what, leaf in leaves:
                d = cg.subst_fill(g.build(steps, leaf=leaf), "a.b")
                add(fname, "empty" if n["ref"] in rule_structs else "other", d, d, cg.steps_text(steps), what="union-" + what,
                    struct=n["ref"])
                if n["ref"] in rule_structs:
                    # the empty entry after a valid one
                    ok_entry = cg.subst_fill(g.minval(n), "a.b")
                    d2 = cg.subst_fill(g.build(steps[:-1], leaf=["seq", [ok_entry, leaf]]), "a.b")
                    add(fname, "empty", d2, d2, cg.steps_text(steps), what="union-" + what + "-second-entry", struct=n["ref"])

    # -- (d) wrong value types, duplicate keys, odd top levels (model agreement only)
    free_items, free_meta = [], []
    for fname, p, doc in bases:
        g = G[fname]
        n = g.node_at_steps(p)
        leaves = wrong_type_leaves(n)
        picks = leaves if thorough else rng.sample(leaves, min(2, len(leaves)))
        strs = list(_strings(doc))
        filler = strs[0] if strs else "a.b"
        for what, leaf, free in picks:
            if free:   # the model accepts it: the rest of the document must be valid for the real loader too
                free_items.append((fname, g.build(p, leaf=leaf)))
                free_meta.append((fname, p, what))
            else:
                d = cg.subst_fill(g.build(p, leaf=leaf), filler)
                add(fname, "other", d, d, cg.steps_text(p), what=what)
        if thorough or rng.random() < 0.15:
            parent = [0] * (len(p) - 1)
            last = p[-1][1]
            d = cg.inject(doc, parent, last, ["null"])
            add(fname, "other", d, d, cg.steps_text(p), what="duplicate-key")
    # a substituted leaf that is itself a parsed string (`object: 1`) has no accepted instantiation: such a
    # variant says nothing about decoding and is dropped (counted)
    free_docs, _ = calibrate(impl, free_items, keep_unsat=False)
    stats["wrong_type_variants_dropped_value_syntax"] = sum(1 for d in free_docs if d is None)
    for (fname, p, what), d in zip(free_meta, free_docs):
        if d is not None:
            add(fname, "other", d, d, cg.steps_text(p), what=what)
    for fname in cg.FILES:
        for what, d in [("top-sequence", ["seq", []]), ("top-scalar", ["str", "x"]), ("top-empty-mapping", ["map", []])]:
            add(fname, "other", d, d, "<root>", what=what)
        # a null document: observed and reported, not compared with the model (see ASSUMPTIONS)
        add(fname, "other", ["null"], ["null"], "<root>", what="top-null", observe_only=True)
    return cases, stats


def _at(d, ip):
    for i in ip:
        d = d[1][i][1] if d[0] == "map" else d[1][i]
    return d


def _strings(d):
    if d[0] == "map":
        for k, v in d[1]:
            yield from _strings(v)
    elif d[0] == "seq":
        for v in d[1]:
            yield from _strings(v)
    elif d[0] == "str" and d[1] != "x":
        yield d[1]


# ------------------------------------------------------------------ running things
def run_impl(ctx, jobs):
    """jobs: list of (file, doc) -> list of {"ok","class","err","stage2"}"""
    binp = build(ctx)
    lines = [json.dumps({"loader": f, "doc": cg.doc_text(d)}) for f, d in jobs]
    out = core.run_harness_robust(binp, "config", lines, args=(ctx.scratch,), chunk=max(50, len(lines) // (2 * core.NCPU) + 1))
    res = []
    for ln in out:
        if ln is None:
            res.append({"ok": False, "class": "fatal", "err": "harness process died or timed out"})
        else:
            res.append(json.loads(ln))
    return res


def run_editor(ctx, jobs):
    """python jsonschema on schemas/*.json.  -> list of 0 / 1 / 2 (not evaluated), and a note"""
    exe = shutil.which("python3-vt")
    if exe is None:
        return [2] * len(jobs), "python3-vt (jsonschema) not found: editor oracle not evaluated"
    idx = [i for i, (f, d) in enumerate(jobs) if not cg.has_dup(d)]
    script = os.path.join(core.VERIF, "tools", "c20_editor.py")
    sdir = os.path.join(core.REPO, "schemas")
    nproc = max(1, min(core.NCPU, len(idx) // 200 + 1))
    chunks = [idx[i::nproc] for i in range(nproc)]

    def do(ch):
        data = "\n".join(json.dumps({"file": jobs[i][0], "doc": cg.to_plain(jobs[i][1])}) for i in ch) + "\n"
        p = subprocess.run([exe, script, sdir], input=data, stdout=subprocess.PIPE, stderr=subprocess.PIPE, text=True, timeout=900)
        lines = p.stdout.split("\n")[:-1]
        if p.returncode != 0 or len(lines) != len(ch):
            return None, p.stderr[-500:]
        return lines, ""

    out = [2] * len(jobs)
    note = ""
    for ch, (lines, err) in zip(chunks, core.parallel(do, chunks)):
        if lines is None:
            note = "editor oracle failed: " + err
            continue
        for i, ln in zip(ch, lines):
            if ln in ("0", "1"):
                out[i] = int(ln)
            else:
                note = "editor oracle: " + ln
    return out, note


def g_case(c, fidx):
    if c["kind"] == "inject":
        kind = "KInject %s %s (%s)" % (cg.g_list([str(i) for i in c["path"]]), cg.q(c["key"]), cg.g_doc(c["value"]))
    else:
        kind = {"base": "KBase", "empty": "KEmpty", "other": "KOther"}[c["kind"]]
    return "{| c_file := %d; c_kind := %s; c_base := %s; c_doc := %s; c_impl := %s; c_editor := %d |}" % (
        fidx[c["file"]], kind, cg.g_doc(c["base"]), cg.g_doc(c["doc"]), "true" if c["impl"]["ok"] else "false", c["editor"])


def coq_eval(ctx, cases):
    fidx = {f: i for i, f in enumerate(cg.FILES)}
    shard = 250
    todo = [i for i, c in enumerate(cases) if not c.get("observe_only")]
    shards = [todo[i:i + shard] for i in range(0, len(todo), shard)]

    def do(k):
        ids = shards[k]
        body = "[" + ";\n".join(g_case(cases[i], fidx) for i in ids) + "]"
        pre = PREAMBLE + "Definition cases : list ccase :=\n%s.\n" % body
        r = core.coq_eval_lists(ctx, "cases_C20_%d" % k, pre, [
            ("MM", "indices (loader_mismatch loaders) cases"),
            ("SM", "indices (schema_mismatch schemas) cases"),
            ("PF", "indices (prop_fails loaders) cases"),
            ("ST", "indices (injected_strict loaders) cases")])
        return {k2: [ids[x] for x in v] for k2, v in r.items()}

    parts = core.parallel(do, list(range(len(shards))))
    return {k: sorted(x for p in parts for x in p[k]) for k in ("MM", "SM", "PF", "ST")}


def py_prop_fails(c):
    """the property predicate evaluated without Coq (only used when the model cannot be compiled)"""
    impl, ed = c["impl"]["ok"], c["editor"]
    if c["kind"] == "base":
        return (not impl) or ed == 0
    if c["kind"] == "inject":
        if c.get("strict"):
            return impl or ed == 1
        return (ed == 0 and impl) or (ed == 1 and not impl)
    if c["kind"] == "empty":
        return impl
    return False


def describe(c):
    impl, ed = c["impl"]["ok"], c["editor"]
    if c["kind"] == "base":
        if not impl:
            return "valid-document-refused-by-loader"
        return "valid-document-refused-by-published-schema"
    if c["kind"] == "inject":
        if c.get("strict"):
            return "unknown-key-accepted-by-loader" if impl else "unknown-key-accepted-by-published-schema"
        return "loader-and-published-schema-disagree-on-key"
    if c["kind"] == "empty":
        return "rule-without-action-accepted"
    return "other"


def job_of(c):
    return {k: c[k] for k in ("file", "kind", "base", "doc", "label", "path", "key", "value", "struct", "strict", "what", "pair", "observe_only") if k in c}


# ------------------------------------------------------------------ entry point
def run(ctx, verdict, replay=None, model_ok=True):
    T = getattr(ctx, "c20", None) or regen(ctx)
    build(ctx)
    stats = {}
    if replay:
        rp = json.load(open(replay))
        job = rp.get("job") or (rp.get("first_mismatch") or {}).get("job")
        if job is None:
            # obligation replay: nothing to re-run but the obligation itself (done by check.py) and the search
            cases, stats = make_cases(ctx, T, lambda jobs: run_impl(ctx, jobs))
        else:
            cases = [dict(job)]
    else:
        cases = []
        corpus = os.path.join(core.VERIF, "corpus", "C20")
        if os.path.isdir(corpus):
            for f in sorted(os.listdir(corpus)):
                if f.endswith(".json"):
                    cases.append(dict(json.load(open(os.path.join(corpus, f)))["job"], corpus=f))
        n_corpus = len(cases)
        gen_cases, stats = make_cases(ctx, T, lambda jobs: run_impl(ctx, jobs))
        cases += gen_cases
        stats["corpus_cases"] = n_corpus
    ctx.log("cases: %d" % len(cases))
    jobs = [(c["file"], c["doc"]) for c in cases]
    res = run_impl(ctx, jobs)
    editor, editor_note = run_editor(ctx, jobs)
    for c, r, e in zip(cases, res, editor):
        c["impl"], c["editor"] = r, e
    ctx.log("implementation ran: %d accepted, %d refused; editor oracle: %d accepted, %d refused, %d not evaluated %s" % (
        sum(1 for r in res if r["ok"]), sum(1 for r in res if not r["ok"]), editor.count(1), editor.count(0), editor.count(2), editor_note))

    coq_ok = True
    try:
        ev = coq_eval(ctx, cases)
    except RuntimeError as e:
        coq_ok = False
        ctx.log("model could not be evaluated in Coq (property evaluated on the implementation only): " + str(e)[-600:])
        ev = {"MM": [], "SM": [], "ST": [i for i, c in enumerate(cases) if c.get("strict")],
              "PF": [i for i, c in enumerate(cases) if py_prop_fails(c)]}
    ctx.log("coq evaluated: loader-mismatch=%d schema-reader-mismatch=%d propfail=%d strict-injections=%d" % (
        len(ev["MM"]), len(ev["SM"]), len(ev["PF"]), len(ev["ST"])))
    strict_set = set(ev["ST"])
    for i, c in enumerate(cases):
        if c["kind"] == "inject":
            c["strict_coq"] = i in strict_set

    # ---- property failures on the implementation (smallest documents first)
    explained = set()
    for i in sorted(ev["PF"], key=lambda i: (len(cg.doc_text(cases[i]["doc"])), i)):
        c = cases[i]
        if c["kind"] == "inject":
            c["strict"] = c.get("strict_coq", c.get("strict"))
        what = describe(c)
        sig = {"file": c["file"], "what": what, "struct": str(c.get("struct") or c["label"]),
               "class": c["impl"].get("class", "")}
        verdict.propfail(sig, {"job": job_of(c), "document": cg.doc_text(c["doc"]), "where": c["label"],
                               "loader": c["impl"], "published_schema_accepts": {0: False, 1: True, 2: None}[c["editor"]],
                               "predicate": "prop_fails loaders case = true (Model/Config.v): " + what})
        explained.add(i)
    unexplained = []
    for i in ev["MM"]:
        if i not in explained:
            c = cases[i]
            unexplained.append({"job": job_of(c), "document": cg.doc_text(c["doc"]), "where": c["label"], "loader": c["impl"],
                                "model": "load predicts %s" % ("refuse" if c["impl"]["ok"] else "accept"), "which": "loader model"})
    for i in ev["SM"]:
        if i not in explained:
            c = cases[i]
            unexplained.append({"job": job_of(c), "document": cg.doc_text(c["doc"]), "where": c["label"],
                                "python_jsonschema_accepts": bool(c["editor"]), "which": "schema reader / schema_accepts model"})

    # ---- coverage (all measured)
    distinct, nontrivial = set(), 0
    hist_kind, hist_depth, hist_class, table = {}, {}, {}, {}
    non_key = {}
    later = {}
    panics = []
    for c in cases:
        if c["impl"].get("class") in ("panic", "fatal"):
            panics.append({"file": c["file"], "document": cg.doc_text(c["doc"])[:300], "error": c["impl"].get("err", "")[:200]})
        h = core.canon_hash([c["file"], cg.doc_text(c["doc"])])
        new = h not in distinct
        distinct.add(h)
        kk = "%s/%s" % (c["file"], c["kind"] if c["kind"] != "inject" else ("inject-language" if c.get("strict_coq", c.get("strict")) else "inject-free-form"))
        hist_kind[kk] = hist_kind.get(kk, 0) + 1
        hist_class[c["impl"].get("class", "?")] = hist_class.get(c["impl"].get("class", "?"), 0) + 1
        tk = "%s: loader %s / schema %s" % (kk.split("/")[1], "accepts" if c["impl"]["ok"] else "refuses",
                                            {0: "refuses", 1: "accepts", 2: "n/a"}[c["editor"]])
        table[tk] = table.get(tk, 0) + 1
        if c["kind"] == "inject":
            d = len(c["path"])
            hist_depth[d] = hist_depth.get(d, 0) + 1
            if new and d >= 2:
                nontrivial += 1
        if c["kind"] in ("empty", "other") and c["editor"] != 2 and bool(c["editor"]) != c["impl"]["ok"]:
            w = c.get("what", "?")
            e = non_key.setdefault(w, {"count": 0, "loader_accepts": c["impl"]["ok"], "example": cg.doc_text(c["doc"])[:300]})
            e["count"] += 1
        if c["impl"].get("stage2"):
            later[c["impl"]["stage2"]] = later.get(c["impl"]["stage2"], 0) + 1
    samples = []
    for want in ("base", "inject", "empty"):
        cs = [c for c in cases if c["kind"] == want]
        if cs:
            c = max(cs, key=lambda c: len(c.get("path", [])))
            samples.append({"job": job_of(c), "document": cg.doc_text(c["doc"]), "loader": c["impl"], "schema": c["editor"]})
    files_cov = {}
    for f in cg.FILES:
        F = T["files"][f]
        files_cov[f] = {
            "loader_structs": len(F["loader"]["defs"]), "schema_defs": len(F["schema"]["defs"]), "related_pairs": len(F["rel"]),
            "declared_keys": sum(len(d["fields"]) for d in F["loader"]["defs"].values()),
            "key_differences": F["key_diffs"], "scalar_type_notes": F["type_notes"][:20],
            "opaque_types": F["loader"]["opaque"], "schema_unrecognised": F["schema"]["unrecognised"],
            "schema_value_keywords_ignored": F["schema"]["value_keywords"],
            "free_form_positions": cg.free_form_positions(F["loader"]),
            "decoders": F["decoders"], "conversion_notes": F["conv_notes"],
            "union_sites": ["%s <- %s" % s for s in F["union_sites"]], "rule_sites": F["rule_sites"],
            "keys_twin": {"loader": {n: [x["key"] for x in d["fields"]] for n, d in F["loader"]["defs"].items()},
                          "schema": {n: [x["key"] for x in d["fields"]] for n, d in F["schema"]["defs"].items()}},
        }
    cov = {
        "evaluations": len(cases),
        "distinct_nontrivial": nontrivial,
        "rule": "documents generated from the forest regenerated on this run: one minimal valid document per key path (no struct entered more than %s on a path), each with ONE unknown key injected at EVERY mapping node in turn%s, every union emptied / members null / attributes only, wrong value types, duplicate keys; distinct by hash of (file, document text); non-trivial = unknown key injected below depth 1 (index path of length >= 2)" % (
            "twice" if ctx.tier == "thorough" else "once", " plus pairs of injections" if ctx.tier == "thorough" else ""),
        "exhaustive_single_injections": not replay,
        "samples": samples,
        "kind_histogram": hist_kind,
        "injection_depth_histogram": {str(k): v for k, v in sorted(hist_depth.items())},
        "loader_error_class_histogram": hist_class,
        "loader_vs_published_schema": table,
        "non_key_discrepancies": non_key,
        "pipeline_later_stage": later,
        "loader_panics": panics[:10],
        "loader_panics_count": len(panics),
        "generator": stats,
        "editor_oracle_note": editor_note,
        "model_evaluated_in_coq": coq_ok,
        "mismatches_model_vs_impl": len(ev["MM"]),
        "mismatches_schema_reader_vs_jsonschema": len(ev["SM"]),
        "propfails_on_impl": len(ev["PF"]),
        "cases_validated_against_impl": len(cases) - len(ev["MM"]),
        "translation": files_cov,
        "union_registry": T["registry"],
        "extra_obligations": 0,
    }
    return {"coverage": cov, "unexplained_mismatches": unexplained,
            "search_note": "every key path of the regenerated forest as a minimal valid document, one unknown key at every mapping node of each, every union emptied; real loaders + python jsonschema"}
