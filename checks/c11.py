"""C11 — generated Python types round-trip documents and agree with Go on the wire format.

Theorems: coq/Props/C11.v over coq/Model/PySem.v (generateFromJSONMethod / fromJSONForType /
disjunctionFromJSON, generateInitMethod, generateToJSONMethod, the runtime JSONEncoder) and, for the wire
agreement, coq/Model/GoSemDecode.v (what json.Unmarshal / json.Marshal do with the Go types).
Tie to the code: correspondence.  Construct-grammar schemas (gen/srcgen.py) are rendered as JSON Schema,
OpenAPI 3.0 and CUE; ONE real cog pipeline (overlay-built from the working tree) generates Go and Python;
documents accepted by the schema language's own reference validator are fed to
    Python:  json.dumps(Cls.from_json(json.loads(doc)), cls=<generated JSONEncoder>)      (drivers/python/driver.py)
    Go    :  json.Marshal of json.Unmarshal(doc) into the generated type                  (drivers/go/main.go)
  PROPFAIL (real outputs only): from_json/to_json raises or the result is not JSON-equal to the document up to
           omitted null members; Python's JSON differs from Go's JSON for the same document.
  MISMATCH: the Python model's prediction (exception or exact JSON) differs from the real Python output; the Go
           model's prediction differs from the real Go output."""
import json
import os
import re

from gen import srcgen, ctorgen
from vlib import core, gencode, gencode_py
from checks import c10

COQ_TARGETS = ["Props/C11.vo", "Model/PySemChecks.vo"]
PROPS = "Props/C11.v"
TRUSTED = [
    "hand-written Gallina model of the generated Python (coq/Model/PySem.v): json.loads / json.dumps are modelled as the identity on JSON values (dict key order and duplicate handling aside), exceptions as one outcome; validated only on generated cases",
    "the Go side of the wire comparison is the model of coq/Model/GoSemDecode.v (encoding/json driven by the generated declarations), shared with C01/C08/C13",
    "reference validators define `a document the schema accepts`: python jsonschema Draft7 (date-time format on), kin-openapi VisitJSON, CUE Unify+Validate(Concrete)",
    "numbers within 15 significant digits (float32 fields: 6), integers within 2^53; python floats print by repr, compared by VALUE",
    "harness/verifh_gen, drivers/go/main.go, drivers/python/driver.py (python3 of the sandbox, 3.11), gen/srcgen.py renderers and document generator",
]
ASSUMPTIONS = ["documents use only declared properties and have no duplicate member names",
               "Python objects are produced by from_json only (not mutated afterwards)"]

EVAL_DEFS = [("PY_UNM", "py_case_unmodelled"), ("GO_UNM", "go_case_unmodelled"), ("MM_PY", "mm_py"), ("MM_GO", "mm_go"),
             ("PF_RT", "pf_rt"), ("PF_WIRE", "pf_wire"), ("ONE_SIDE", "one_side_only"),
             ("SAFE_RT", "some_doc_rt_safe"), ("PF_RT_SAFE", "pf_rt_in_safe"), ("SAFE_WIRE", "some_doc_wire_safe"),
             ("PF_WIRE_SAFE", "pf_wire_in_safe"), ("SPEC_EQ", "spec_eq_differs"),
             ("SAFE_PROVED", "some_doc_wire_proved"), ("PF_PROVED", "pf_wire_in_proved")]

TS = re.compile(r"^\d{4}-\d\d-\d\dT\d\d:\d\d:\d\d(\.\d+)?(Z|[+-]\d\d:\d\d)$")


def diffs(a, b, path=(), out=None, null_ok=True):
    """positions where b is not `a with some null members removed` (null_ok) / not JSON-equal to a"""
    out = [] if out is None else out
    if len(out) >= 8:
        return out
    if isinstance(a, dict) and isinstance(b, dict):
        for k, v in a.items():
            if k not in b:
                if not (null_ok and v is None):
                    out.append((path + (k,), v, "<absent>"))
                continue
            diffs(v, b[k], path + (k,), out, null_ok)
        for k in b:
            if k not in a:
                out.append((path + (k,), "<absent>", b[k]))
        return out
    if isinstance(a, list) and isinstance(b, list):
        if len(a) != len(b):
            out.append((path, "<len %d>" % len(a), "<len %d>" % len(b)))
            return out
        for i, (x, y) in enumerate(zip(a, b)):
            diffs(x, y, path + (i,), out, null_ok)
        return out
    if not srcgen.json_same(a, b):
        out.append((path, a, b))
    return out


def classify(diff):
    _, a, b = diff
    if isinstance(a, str) and not a.startswith("<") and isinstance(b, list):
        return "byte-array-printed-as-base64-string"
    if b == "<absent>" and a in ([], {}):
        return "empty-collection-absent"
    if a == "<absent>" and b in ([], {}):
        return "empty-collection-added"
    if b == "<absent>" and a == "0001-01-01T00:00:00Z":
        return "zero-time-for-absent-member"
    if b == "<absent>" and a is None:
        return "null-member-absent"
    if a == "<absent>" and b is None:
        return "null-member-added"
    if b == "<absent>":
        return "member-absent"
    if a == "<absent>":
        return "member-added"
    if isinstance(a, str) and isinstance(b, str) and TS.match(a) and TS.match(b):
        return "date-time-reformatted"
    if a is None and b is not None:
        return "null-replaced-by-default"
    if b is None and a is not None:
        return "value-replaced-by-null"
    if isinstance(a, (int, srcgen.Decimal)) and isinstance(b, (int, srcgen.Decimal)) and not isinstance(a, bool) and not isinstance(b, bool):
        return "number-changed"
    return "other"


IR_SCALAR = ("bool", "int", "float", "string", "datetime", "any", "const")


def _ir_scalar(schema, t):
    """the element type is a scalar of the IR (ArrayType.IsArrayOf(KindScalar)): a constant is one except in OpenAPI,
    where it is written as an enumeration of one value"""
    if t["k"] == "const":
        if schema.get("fmt") != "openapi":
            return True
        return t.get("enum1") is False      # gen/ctorgen.py: pattern idiom (a constant of the IR); srcgen: always an enum of one
    return t["k"] in IR_SCALAR


def null_culprits(schema, doc, defname):
    """kinds of the typed positions holding an explicit null INTO WHICH from_json recurses (a class, an array or
    map whose element type is not an IR scalar, a discriminated union): why from_json may raise"""
    g = srcgen.DocGen(None, schema)
    out = set()
    try:
        for path, t, v, _ in g.positions(g.defs[defname], doc):
            if v is None and path:
                rt = g.resolve(t)
                k = rt["k"]
                if k == "struct":
                    out.add("struct")
                elif k == "dunion":
                    out.add("discriminated-union")
                elif k in ("array", "map") and not _ir_scalar(schema, rt["of"]):
                    out.add(k + "-of-non-scalars")
    except Exception:
        pass
    return out


def has_nested_maps(schema):
    g = srcgen.DocGen(None, schema)

    def walk(t):
        k = t["k"]
        if k == "map":
            inner = g.resolve(t["of"])
            if inner["k"] == "map" and not _ir_scalar(schema, inner["of"]):
                return True
            return walk(t["of"])
        if k == "array":
            return walk(t["of"])
        if k == "struct":
            return any(walk(f["t"]) for f in t["fields"])
        return False
    return any(walk(d["t"]) for d in schema["defs"])


def run(ctx, verdict, replay=None, model_ok=True):
    rng = ctx.rng
    thorough = ctx.tier == "thorough"
    # Go is generated with the JSON marshaller alone (C11 compares encoding/json behaviour; Equals / Validate / the
    # strict decoder are C13 / C08 / C01's business and must not keep a package from compiling here)
    batch = gencode_py.PyBatch(ctx, "c11", go_opts={"generate_json_marshaller": True},
                               driver_template=os.path.join(core.VERIF, "drivers", "go_c11", "main.go"))
    texts, plan, replay_jobs = {}, [], []

    def add_text(pkg, fmt, text):
        texts[pkg] = text
        return batch.add({"pkg": pkg, "root": "Root", "defs": [], "fmt": fmt}, fmt, text=text)

    replay_schemas = {}
    if replay:
        for job in gencode.Campaign.replay_jobs(replay):
            replay_jobs.append((add_text(job["pkg"], job["fmt"], job["schema_text"]), job))
            if job.get("schema"):
                replay_schemas[job["pkg"]] = c10.schema_from_json(job["schema"])
    else:
        cdir = os.path.join(core.VERIF, "corpus", "C11")
        if os.path.isdir(cdir):
            for f in sorted(os.listdir(cdir)):
                job = json.load(open(os.path.join(cdir, f)))["job"]
                job = dict(job, pkg="k%03d" % len(replay_jobs))
                job["schema_text"] = re.sub(r"(?m)^package \w+", "package " + job["pkg"], job["schema_text"])
                replay_jobs.append((add_text(job["pkg"], job["fmt"], job["schema_text"]), job))
                if job.get("schema"):
                    replay_schemas[job["pkg"]] = dict(c10.schema_from_json(job["schema"]), pkg=job["pkg"])
        per_fmt = 500 if thorough else 170
        per_fmt_defaults = 150 if thorough else 40
        k = 0
        for fmt in srcgen.FORMATS:
            for _ in range(per_fmt):
                s = srcgen.SrcGen(rng, max_depth=4 if thorough else 3, fmt=fmt).schema("s%03d" % k)
                k += 1
                texts[s["pkg"]] = srcgen.render(s, fmt)
                batch.add(s, fmt, text=texts[s["pkg"]])
                plan.append((s["pkg"], s))
            # schemas DECLARING DEFAULTS (the generator of C10, restricted to what compiles in Go): from_json applies
            # defaults to absent members
            for _ in range(per_fmt_defaults):
                s = ctorgen.CtorGen(rng, fmt, clean=True).schema("s%03d" % k)
                k += 1
                texts[s["pkg"]] = ctorgen.render(s, fmt)
                batch.add(s, fmt, text=texts[s["pkg"]])
                plan.append((s["pkg"], s))
    batch.generate()
    batch.build_driver()
    ctx.log("cog ran on %d schemas: %d generated (Go+Python), %d rejected by cog, %d Go packages do not compile"
            % (len(batch.schemas), len([g for g in batch.gen.values() if g.status == "OK"]),
               len([g for g in batch.gen.values() if g.status != "OK"]), len(batch.compile_errors)))
    ok_go = set(batch.ok_sids())
    ok_py = set(batch.py_ok_sids())
    schema_by = {sid: s for sid, s in plan}
    schema_by.update(replay_schemas)
    jobs = []

    def add_job(sid, objname, pydocs, meta=None):
        jobs.append({"id": "j%d" % len(jobs), "sid": sid, "type": objname, "pydocs": list(pydocs),
                     "docs": [srcgen.dumps(d) for d in pydocs], "meta": meta or {}})

    for sid, job in replay_jobs:
        if sid in ok_py:
            add_job(sid, job["type"], [srcgen.loads(d) for d in job["docs"]], job.get("meta"))
    ndocs = 60 if thorough else 30
    for sid, s in plan:
        if sid not in ok_py:
            continue
        if s["root"] not in {o["name"] for o in batch.py_objects(sid) if o["kind"] == "struct"}:
            continue
        dg = srcgen.DocGen(rng, s)
        docs = []
        try:
            dg.valid()
        except RecursionError:      # a required reference cycle the generator did not break: no finite document
            continue
        for _ in range(ndocs):
            d = dg.valid()
            kind = "valid"
            if rng.random() < 0.15:
                v = dg.empty_variant(d)
                if v is not None:
                    d, kind = v, "valid+empty-collections"
            docs.append((d, kind))
        for i in range(0, len(docs), 3):
            grp = docs[i:i + 3]
            add_job(sid, s["root"], [d for d, _ in grp], {"kinds": [k_ for _, k_ in grp]})
    pres = batch.run_py([dict(j, ops=["rt"]) for j in jobs])
    gjobs = [j for j in jobs if j["sid"] in ok_go and
             any(o["name"] == j["type"] and o["kind"] == "struct" for o in batch.gen[j["sid"]].objects)]
    gres = batch.run([dict(j, ops=["std"]) for j in gjobs])
    gmap = {j["id"]: r for j, r in zip(gjobs, gres)}
    live = [i for i, r in enumerate(pres) if r is not None and r.get("known") and r.get("import") == "ok"]
    ctx.log("drivers ran %d jobs: python %d live, go %d live" % (len(jobs), len(live), len([r for r in gres if r and r.get("known")])))

    def payload(i, d=None, extra=None):
        j = jobs[i]
        job = {"fmt": batch.schemas[j["sid"]][1], "pkg": j["sid"], "schema_text": texts[j["sid"]], "type": j["type"],
               "docs": j["docs"] if d is None else [j["docs"][d]], "meta": j["meta"]}
        if j["sid"] in schema_by:
            job["schema"] = c10.schema_to_json(schema_by[j["sid"]])
        p = {"job": job}
        p.update(extra or {})
        return p

    # ---- python module does not import / class missing
    dead = [i for i, r in enumerate(pres) if r is None or not r.get("known") or r.get("import") != "ok"]
    seen_dead = set()
    for i in dead:
        sid = jobs[i]["sid"]
        if sid in seen_dead:
            continue
        seen_dead.add(sid)
        r = pres[i] or {}
        cause = str(r.get("import", "driver-died"))
        if "typing.Union[]" in batch.py_source(sid):
            cause += ":typing.Union[]"
        verdict.propfail({"kind": "python-module-not-usable", "cause": cause}, payload(i, extra={"observed": r}))

    # ---- a Go package that does not compile produces no JSON at all
    from checks import c10 as _c10, c13 as _c13
    for sid, err in list(batch.compile_errors.items())[:5]:
        cause = _c10.go_compile_cause(err)
        if cause == "other":
            cause = _c13.compile_cause(err)
        i0 = [i for i, j in enumerate(jobs) if j["sid"] == sid]
        verdict.propfail({"kind": "go-package-does-not-compile", "cause": cause},
                         payload(i0[0], extra={"observed": err[:1500]}) if i0 else
                         {"job": {"fmt": batch.schemas[sid][1], "pkg": sid, "schema_text": texts[sid], "type": "Root", "docs": [], "meta": {}},
                          "observed": err[:1500]})

    # ---- hypothesis: accepted by the source schema's own validator
    items = [{"fmt": batch.schemas[jobs[i]["sid"]][1], "path": batch.schema_path(jobs[i]["sid"]), "type": jobs[i]["type"],
              "docs": jobs[i]["docs"]} for i in live]
    verdicts = gencode.ref_validate(ctx, items)
    accepted = {}
    n_docs = n_acc = 0
    for i, v in zip(live, verdicts):
        n_docs += len(jobs[i]["docs"])
        if v is None:
            continue
        keep = [d for d in range(len(jobs[i]["docs"])) if d < len(v) and v[d] == "1"]
        n_acc += len(keep)
        if keep:
            accepted[i] = keep
    ctx.log("reference validators accepted %d of %d generated documents" % (n_acc, n_docs))

    # ---- Coq
    def pobs_term(x):
        enc = gencode.g_opt(srcgen.doc_to_gallina(x["enc"])) if x.get("rt") == "ok" else "None"
        return "(mkPObs %s %s)" % (srcgen.g_str(x.get("rt") or ""), enc)

    def gobs_term(x):
        if x is None:
            return '(mkObs "none" None None "" None)'
        return gencode.obs_term(x)

    idx = sorted(accepted)
    cases = []
    for i in idx:
        j = jobs[i]
        keep = accepted[i]
        g = gmap.get(j["id"])
        gobs = [(g["res"][d] if g and g.get("known") else None) for d in keep]
        term = "(%s, pctx_%s, %s, %s, %s, %s, %s, %s)" % (
            "ctx_%s" % j["sid"], j["sid"], srcgen.g_str(j["sid"]), srcgen.g_str(j["type"]), srcgen.g_str(j["type"]),
            gencode.g_list(srcgen.doc_to_gallina(j["pydocs"][d]) for d in keep),
            gencode.g_list(gobs_term(x) for x in gobs), gencode.g_list(pobs_term(pres[i]["res"][d]) for d in keep))
        cases.append((j["sid"], term))
    ev = gencode_py.eval_cases2(ctx, "cases_C11", "Model.GoSem Model.Ctor Model.PySem Model.PySemChecks Model.PySemSpec",
                                batch, cases, "pcase", EVAL_DEFS, shard=40)
    ev = {k: [idx[x] for x in v] for k, v in ev.items()}
    # module level: does the model predict which modules do not import?
    msids = sorted({j["sid"] for j in jobs})
    import_ok = {}
    for i, r in enumerate(pres):
        if r is not None:
            import_ok[jobs[i]["sid"]] = r.get("import") == "ok"
    mcases = [(sid, "(pctx_%s, %s, %s)" % (sid, srcgen.g_str(sid), "true" if import_ok[sid] else "false"))
              for sid in msids if sid in import_ok]
    mev = gencode_py.eval_cases2(ctx, "modules_C11", "Model.GoSem Model.Ctor Model.PySem", batch, mcases, "schemas * string * bool",
                                 [("MM_IMPORT", "fun c => let '(pctx, p, ok) := c in Bool.eqb (py_module_broken pctx p) ok")], shard=60)
    mm_import = [mcases[x][0] for x in mev["MM_IMPORT"]]
    ctx.log("coq evaluated %d groups: " % len(cases) + " ".join("%s=%d" % (k, len(v)) for k, v in ev.items()))

    # ---- PROPFAIL details (python), consistency with the Coq verdicts
    budget = {"n": 50}
    counts = {"python_raises": 0, "python_roundtrip_differs": 0, "wire_differs": 0, "only_one_language_produces_json": 0}
    sig_hist = {}
    rt_safe_fail = set(ev["PF_RT_SAFE"])
    wire_safe_fail = set(ev["PF_WIRE_SAFE"])

    def report(sig, i, d, extra=None):
        key = json.dumps(sig, sort_keys=True)
        sig_hist[key] = sig_hist.get(key, 0) + 1
        if budget["n"] > 0 and verdict.propfail(sig, payload(i, d, extra)) == "violation":
            budget["n"] -= 1

    by_size = lambda ids: sorted(ids, key=lambda i: len(json.dumps(jobs[i]["docs"])))
    py_rt_groups, py_wire_groups = set(), set()
    for i in by_size(accepted):
        j = jobs[i]
        fmt = batch.schemas[j["sid"]][1]
        g = gmap.get(j["id"])
        s = schema_by.get(j["sid"])
        for d in accepted[i]:
            x = pres[i]["res"][d]
            doc = j["pydocs"][d]
            if x["rt"] != "ok":
                counts["python_raises"] += 1
                py_rt_groups.add(i)
                nulls = sorted(null_culprits(s, doc, j["type"])) if s else []
                cause = ("explicit-null:" + "+".join(nulls)) if nulls else \
                    ("map-of-maps-of-non-scalars" if s and x.get("exc") == "KeyError" and has_nested_maps(s) else "other")
                report({"kind": "python-roundtrip-raises", "stage": x.get("stage", "?"), "exception": x.get("exc", "?"),
                        "cause": cause,
                        "fragment": "safe" if i in rt_safe_fail else "excluded"}, i, d, {"observed": x})
            else:
                df = diffs(doc, x["enc"])
                if df:
                    counts["python_roundtrip_differs"] += 1
                    py_rt_groups.add(i)
                    nested = bool(s) and has_nested_maps(s)
                    # Python keeps leaves untouched: below a map of maps ANY changed leaf is another entry's value
                    cls_ = (lambda y: "map-of-maps-of-non-scalars:wrong-entry" if nested and len(y[0]) >= 3 else classify(y))
                    for cause in sorted({cls_(y) for y in df}):
                        one = [y for y in df if cls_(y) == cause][0]
                        report({"kind": "python-roundtrip-differs", "cause": cause, "fragment": "safe" if i in rt_safe_fail else "excluded"},
                               i, d, {"difference": {"path": list(one[0]), "original": one[1], "reencoded": one[2]}, "observed": x})
            gx = g["res"][d] if g and g.get("known") else None
            if gx is not None and gx.get("std") == "ok" and gx.get("encs") == "ok" and x["rt"] == "ok":
                df = diffs(gx["enc"], x["enc"], null_ok=False)
                if df:
                    counts["wire_differs"] += 1
                    py_wire_groups.add(i)
                    nested = bool(s) and has_nested_maps(s)
                    cls_ = (lambda y: "map-of-maps-of-non-scalars:wrong-entry" if nested and classify(y) not in ("date-time-reformatted", "byte-array-printed-as-base64-string") and len(y[0]) >= 3 else classify(y))
                    for cause in sorted({cls_(y) for y in df}):
                        one = [y for y in df if cls_(y) == cause][0]
                        report({"kind": "go-and-python-differ-on-the-wire", "cause": "go->python:" + cause,
                                "fragment": "safe" if i in wire_safe_fail else "excluded"}, i, d,
                               {"difference": {"path": list(one[0]), "go": one[1], "python": one[2]}, "go": gx, "python": x})
            elif gx is not None and (gx.get("std") == "ok") != (x["rt"] == "ok"):
                counts["only_one_language_produces_json"] += 1
    evaluator_disagreements = []
    for mine, name in ((py_rt_groups, "PF_RT"), (py_wire_groups, "PF_WIRE")):
        if mine != set(ev[name]):
            evaluator_disagreements.append({"predicate": name, "python_only": sorted(mine - set(ev[name]))[:5],
                                            "coq_only": sorted(set(ev[name]) - mine)[:5]})

    mm = sorted(set(ev["MM_PY"]) | set(ev["MM_GO"]))
    unexplained = []
    for i in mm[:16]:
        g = gmap.get(jobs[i]["id"])
        unexplained.append(dict(payload(i), which=[k for k in ("MM_PY", "MM_GO") if i in ev[k]], accepted=accepted[i],
                                python=pres[i], go=g))
    for dsg in evaluator_disagreements:
        unexplained.append({"job": {}, "which": "python and Coq evaluate the property differently", "detail": dsg})
    for sid in mm_import[:4]:
        unexplained.append({"job": {"fmt": batch.schemas[sid][1], "pkg": sid, "schema_text": texts[sid], "type": "Root", "docs": [], "meta": {}},
                            "which": ["MM_IMPORT"], "observed_import_ok": import_ok[sid]})
    for i in ev["PF_PROVED"][:3]:
        unexplained.append(dict(payload(i), which=["failure inside the fragment of py_go_same_wire_safe"], python=pres[i],
                                go=gmap.get(jobs[i]["id"])))
    for i in ev["SPEC_EQ"][:3]:
        unexplained.append(dict(payload(i), which=["le_null_u differs from json_eq_mod_null"], python=pres[i]))

    # ---- coverage
    unm = set(ev["PY_UNM"])
    distinct, nontriv = set(), 0
    cons_hist, kind_hist, out_hist = {}, {}, {}
    for i, keep in accepted.items():
        j = jobs[i]
        s = schema_by.get(j["sid"])
        g = gmap.get(j["id"])
        for d in keep:
            x = pres[i]["res"][d]
            kk = (j["meta"].get("kinds") or ["replay"] * 9)[d]
            kind_hist[kk] = kind_hist.get(kk, 0) + 1
            gx = g["res"][d] if g and g.get("known") else None
            key = "py_%s/go_%s" % (x["rt"], gx["std"] if gx else "not-run")
            out_hist[key] = out_hist.get(key, 0) + 1
            h = core.canon_hash([j["sid"], j["docs"][d]])
            if h in distinct or i in unm:
                continue
            distinct.add(h)
            cs = set()
            if s is not None:
                try:
                    cs = srcgen.constructs(s, j["pydocs"][d], j["type"])
                except Exception:
                    pass
            for c in cs:
                cons_hist[c] = cons_hist.get(c, 0) + 1
            if len(cs) >= 3:
                nontriv += 1
    gen_hist = {}
    for sid, g in batch.gen.items():
        key = batch.schemas[sid][1] + ":" + (g.status if g.status == "OK" else g.status + "@" + g.stage)
        gen_hist[key] = gen_hist.get(key, 0) + 1
    samples = []
    for i in list(accepted)[:3]:
        d = accepted[i][0]
        g = gmap.get(jobs[i]["id"])
        gx = g["res"][d] if g and g.get("known") else None
        x = pres[i]["res"][d]
        samples.append({"format": batch.schemas[jobs[i]["sid"]][1], "doc": jobs[i]["docs"][d], "python": x["rt"],
                        "python_json": srcgen.dumps(x["enc"]) if x["rt"] == "ok" else None,
                        "go_json": srcgen.dumps(gx["enc"]) if gx and gx.get("std") == "ok" and gx.get("enc") is not None else None})
    cov = {
        "evaluations": n_acc,
        "documents_generated": n_docs,
        "distinct_nontrivial": nontriv,
        "rule": "one evaluation = one document accepted by the reference validator of its schema language, passed through the generated Python from_json/to_json/encoder and through the generated Go type; distinct by hash of (schema, document); non-trivial = the document exercises >= 3 distinct constructs of its schema; groups outside the Python model not counted",
        "samples": samples,
        "schemas": len(batch.schemas),
        "cog_outcomes_by_format": gen_hist,
        "go_packages_not_compiling": len(batch.compile_errors),
        "python_modules_not_usable": len(seen_dead),
        "document_kind_histogram": kind_hist,
        "construct_histogram": cons_hist,
        "outcome_histogram": out_hist,
        "property_failures_counted": counts,
        "failures_by_signature": {k: v for k, v in sorted(sig_hist.items(), key=lambda kv: -kv[1])},
        "unmodelled_groups": {"python": len(ev["PY_UNM"]), "go": len(ev["GO_UNM"])},
        "mismatches_model_vs_impl": dict({k: len(ev[k]) for k in ("MM_PY", "MM_GO")}, MM_IMPORT=len(mm_import), SPEC_EQ=len(ev["SPEC_EQ"])),
        "modules_checked_for_importability": len(mcases),
        "groups_with_a_document_in_the_safe_fragment": {"py_roundtrip_partial": len(ev["SAFE_RT"]), "wire_safe (validated)": len(ev["SAFE_WIRE"]),
                                                        "py_go_same_wire_safe (proved: wire_safeF)": len(ev["SAFE_PROVED"])},
        "groups_with_a_failure_inside_the_safe_fragment": {"py_roundtrip_partial": len(ev["PF_RT_SAFE"]), "wire_safe (validated)": len(ev["PF_WIRE_SAFE"]),
                                                           "py_go_same_wire_safe (proved: wire_safeF)": len(ev["PF_PROVED"])},
        "propfail_groups": {k: len(ev[k]) for k in ("PF_RT", "PF_WIRE", "ONE_SIDE")},
        "property_evaluator_disagreements": evaluator_disagreements,
        "cases_validated_against_impl": len(accepted) - len([i for i in accepted if i in unm]) - len(mm),
    }
    return {"coverage": cov, "unexplained_mismatches": unexplained,
            "search_note": "generated schemas (3 formats) x documents accepted by the reference validators; Python from_json/to_json and Go Unmarshal/Marshal on the real generated code"}
