"""C12 — the JSON Schema and OpenAPI documents cog emits describe the same documents as the generated types.

Theorems: coq/Props/C12.v over coq/Model/JsonSchemaOut.v (`emit_*` mirroring internal/jennies/jsonschema/schema.go
and internal/jennies/openapi/schema.go, `js_valid` a Draft-07 validator of exactly the emitted shapes) and the Go
semantics model coq/Model/GoSem*.v (`encode`, `wt`).
Tie to the code: correspondence (harness/verifh_out, vlib/gencode_out.py).
  stream A  construct-grammar schemas (gen/srcgen.py) rendered as JSON Schema / OpenAPI / CUE -> the REAL pipeline with
            go + jsonschema + openapi outputs -> emitted documents + compiled Go driver.  Documents accepted by the
            source schema's reference validator are decoded by the generated Go types and re-encoded; the encodings
            are validated against the EMITTED JSON Schema by python jsonschema (Draft7, check_schema + validate)
            and against the emitted OpenAPI document by kin-openapi.
  stream B  directly constructed IRs (gen/irgen.py: several packages, cross-package references, constant
            references, intersections, comments, defaults) -> the loop body of Pipeline.Run for jsonschema + openapi.
  on every emitted document, without the model (PROPFAIL): draft-07 meta-schema (python `check_schema`, santhosh-tekuri
  compiler), kin-openapi loader + Validate, cog's own front-ends (jsonschema.GenerateAST / openapi.GenerateAST), every
  `$ref` resolves, every object and field of the jenny's context is present under its own name, required lists /
  constraints / enum values / constants / defaults equal the IR's (read directly from the document, and once more
  from the IR cog's own parser rebuilds from it).
  with the model (MISMATCH): render(emit ctx) = the emitted files (JSON equality), js_valid on the model's document =
  python's verdict on the real file for every encoded document."""
import json
import os
import re

from gen import irgen, srcgen
from vlib import core, gencode, gencode_out

COQ_TARGETS = ["Props/C12.vo", "Model/JsonSchemaOutCheck.vo"]
PROPS = "Props/C12.v"
TRUSTED = [
    "hand-written Gallina model of the two schema jennies (coq/Model/JsonSchemaOut.v) validated by JSON equality with the emitted files on the generated cases only",
    "js_valid models Draft-07 semantics of the emitted keyword subset; validated against python jsonschema 4.x (Draft7Validator, date-time format checked) on the generated cases only",
    "encoded_values_validate is stated over ONE context serving both jennies (the JSON Schema jenny applied to the IR the Go jenny sees) and over coq/Model/GoSemDecode.v `encode` / GoSemSpec.v `wt`; the difference between the Go chain and the jsonschema chain (unions, hoisted anonymous types) is covered by the correspondence only",
    "reference tools: python jsonschema (check_schema/validate), santhosh-tekuri/jsonschema compiler, kin-openapi loader + Validate + VisitJSON",
    "harness/verifh_out (Gallina printer copied from harness/verifh/ir.go; facts printer), drivers/go/main.go, gen/srcgen.py, gen/irgen.py, vlib/gencode.py",
]
ASSUMPTIONS = [
    "values of the generated Go types = values obtained by decoding documents the source schema's reference validator accepts (standard decoder), then json.Marshal",
    "numbers within 15 significant digits, integers within 2^53, ASCII identifiers",
    "stream B: `$ref` resolution is only required of contexts whose own references resolve (C05)",
]

EVAL_DEFS = [("UNM", "ocase_unmodelled"), ("MM_JS", "mm_emit_js"), ("MM_OA", "mm_emit_oapi"), ("MM_VALID", "mm_valid"),
             ("UNM_VALID", "unm_valid"), ("M_DANGLE", "m_refs_dangle"), ("M_MISSING", "m_object_missing"),
             ("M_FUEL", "m_out_of_fuel")]

KW_OF_OP = {"minLength": "minLength", "maxLength": "maxLength", "<": "exclusiveMaximum", "<=": "maximum",
            ">": "exclusiveMinimum", ">=": "minimum", "%": "multipleOf"}
STRING_KINDS = ("string", "bytes")
NUMBER_KINDS = ("float32", "float64", "uint8", "uint16", "uint32", "uint64", "int8", "int16", "int32", "int64")


# ---------------------------------------------------------------------- IR facts vs the emitted document
def compare(t, s, path, out, defs_kind):
    """t: facts of an IR type (harness typeFacts), s: the emitted definition (python value).
    Appends (path, facet, cause, detail).  Facets: presence | required | constraint | enum | const | default."""
    if not isinstance(s, dict):
        out.append((path, "presence", "definition-is-not-an-object", ""))
        return
    k = t["kind"]
    if k == "struct":
        props = s.get("properties")
        if not isinstance(props, dict):
            out.append((path, "presence", "struct-without-properties", ""))
            return
        names = [f["name"] for f in t.get("fields") or []]
        dup = len(set(names)) != len(names)
        for f in t.get("fields") or []:
            if f["name"] not in props:
                out.append((path + (f["name"],), "presence", "field-missing", ""))
        for n in props:
            if n not in names:
                out.append((path + (n,), "presence", "property-of-another-object", ""))
        want = [f["name"] for f in t.get("fields") or [] if f["req"]]
        got = s.get("required") or []
        if sorted(want) != sorted(got):
            out.append((path, "required", "required-list-differs" + ("(duplicate-field-names)" if dup else ""),
                        "ir=%s emitted=%s" % (want, got)))
        last = {}
        for f in t.get("fields") or []:
            last[f["name"]] = f           # properties.Set: the last field of a name wins
        for n, f in last.items():
            if n in props:
                ft, ps = f["t"], props[n]
                if "default" in ft:
                    if not isinstance(ps, dict) or "default" not in ps:
                        out.append((path + (n,), "default", "default-missing", ""))
                    elif not srcgen.json_same(_num(ft["default"]), _num(ps["default"])):
                        out.append((path + (n,), "default", "default-differs", "ir=%r emitted=%r" % (ft["default"], ps["default"])))
                elif isinstance(ps, dict) and "default" in ps:
                    out.append((path + (n,), "default", "default-invented", ""))
                compare(ft, ps, path + (n,), out, defs_kind)
        return
    if k == "scalar":
        sk = t.get("scalar", "")
        for op, arg in t.get("cs") or []:
            kw = KW_OF_OP.get(op)
            applies = (sk in STRING_KINDS and kw in ("minLength", "maxLength")) or \
                      (sk in NUMBER_KINDS and kw not in (None, "minLength", "maxLength"))
            if kw is None or not applies:
                out.append((path, "constraint", "constraint-not-expressed:%s:%s" % (op, sk), ""))
            elif kw not in s:
                out.append((path, "constraint", "constraint-missing:" + kw, ""))
            elif not srcgen.json_same(_num(arg), _num(s[kw])):
                ops = [c[0] for c in t.get("cs")]
                cause = "constraint-overwritten-by-duplicate:" + kw if ops.count(op) > 1 else "constraint-differs:" + kw
                out.append((path, "constraint", cause, "ir=%r emitted=%r" % (arg, s[kw])))
        if "const" in t:
            if "const" not in s:
                out.append((path, "const", "const-missing", ""))
            elif not srcgen.json_same(_num(t["const"]), _num(s["const"])):
                out.append((path, "const", "const-differs", "ir=%r emitted=%r" % (t["const"], s["const"])))
        return
    if k == "enum":
        want = t.get("enum") or []
        got = s.get("enum")
        if not isinstance(got, list) or len(got) != len(want) or not all(srcgen.json_same(_num(a), _num(b)) for a, b in zip(want, got)):
            out.append((path, "enum", "enum-values-differ", "ir=%r emitted=%r" % (want, got)))
        return
    if k == "array":
        if t.get("of") is not None:
            compare(t["of"], s.get("items", {}), path + ("[]",), out, defs_kind)
        return
    if k == "map":
        if t.get("of") is not None:
            ap = s.get("additionalProperties", {})
            compare(t["of"], ap if isinstance(ap, dict) else {}, path + ("{}",), out, defs_kind)
        return
    if k == "disjunction":
        bs = s.get("anyOf")
        if not isinstance(bs, list) or len(bs) != len(t.get("branches") or []):
            out.append((path, "presence", "union-branches-differ", ""))
            return
        for i, (bt, b) in enumerate(zip(t.get("branches") or [], bs)):
            compare(bt, b, path + ("|%d" % i,), out, defs_kind)
        return
    if k == "ref":
        want = gencode_out._ref_prefix(defs_kind) + t.get("ref", "")
        if s.get("$ref") != want:
            out.append((path, "presence", "reference-differs", "ir=%s emitted=%r" % (want, s.get("$ref"))))
        return
    if k == "constant_ref":
        if "const" not in s and "enum" not in s:
            out.append((path, "const", "constant-reference-emitted-as-empty-schema", "value=%r" % (t.get("const"),)))
        return
    if k == "intersection":
        if "allOf" not in s:
            out.append((path, "presence", "intersection-emitted-as-empty-schema", ""))
        return


def _num(v):
    """python value from json.loads (floats) or srcgen.loads (Decimal) -> comparable"""
    if isinstance(v, float):
        return srcgen.Decimal(repr(v))
    if isinstance(v, list):
        return [_num(x) for x in v]
    if isinstance(v, dict):
        return {k: _num(x) for k, x in v.items()}
    return v


def facts_lookup(facts, pkg, name):
    for s in facts:
        if s["pkg"] == pkg:
            for o in s["objects"]:
                if o["name"] == name:
                    return o["t"]
    return None


def facts_at(facts, pkg, t, ipath, depth=0, nullable=False):
    """the IR types (facts) an instance path can lead to, following references and every union branch.
    Each result carries "nullable": true when the position or a reference on the way to it is nullable."""
    if t is None or depth > 60:
        return []
    nullable = nullable or bool(t.get("nullable"))
    while t.get("kind") == "ref":
        t2 = facts_lookup(facts, t.get("refpkg", pkg), t.get("ref"))
        if t2 is None:
            return [dict(t, nullable=nullable)]
        t = t2
        nullable = nullable or bool(t.get("nullable"))
        depth += 1
        if depth > 60:
            return []
    k = t.get("kind")
    if k == "disjunction":
        out = []
        for b in t.get("branches") or []:
            out += facts_at(facts, pkg, b, ipath, depth + 1, nullable)
        return out
    if not ipath:
        return [dict(t, nullable=nullable)]
    head, rest = ipath[0], ipath[1:]
    if k == "struct":
        out = []
        for f in t.get("fields") or []:
            if f["name"] == head:
                out += facts_at(facts, pkg, f["t"], rest, depth + 1)
        return out
    if k in ("array", "map"):
        return facts_at(facts, pkg, t.get("of"), rest, depth + 1)
    return []


def rejection_cause(dv, facts, pkg, tname):
    """why the emitted schema rejects an encoded value: attributed to the IR type(s) at the failing position"""
    root = facts_lookup(facts, pkg, tname)
    cands = facts_at(facts, pkg, {"kind": "ref", "ref": tname, "refpkg": pkg}, dv.get("ipath") or []) if root is not None else []
    kw, it, sval = dv.get("kw"), dv.get("itype"), dv.get("sval")
    if kw == "$ref-unresolvable":
        return "dangling-$ref"
    if kw == "type" and sval == '"object"' and any(t.get("kind") == "scalar" and t.get("scalar") == "any" for t in cands):
        return "any-emitted-as-type-object"
    if kw == "type" and sval == '"object"' and any(t.get("kind") == "composable_slot" for t in cands):
        return "composable-slot-emitted-as-type-object"
    if it == "null" and kw in ("type", "enum", "const", "anyOf"):
        if any(t.get("nullable") for t in cands):
            return "nullable-not-expressed"
        if any(t.get("kind") in ("array", "map") for t in cands):
            return "nil-collection-encoded-as-null"
        return "null-for-non-nullable:" + (cands[0].get("kind", "?") if cands else "?")
    if kw == "type" and it == "string" and sval == '"array"' and \
            any(t.get("kind") == "array" and (t.get("of") or {}).get("scalar") == "uint8" for t in cands):
        return "uint8-array-encoded-as-base64-string"
    if kw == "additionalProperties":
        return "member-not-declared"
    if kw == "required":
        return "required-member-missing"
    if kw in ("minimum", "maximum", "exclusiveMinimum", "exclusiveMaximum", "minLength", "maxLength", "multipleOf"):
        return "constraint:" + kw
    if kw == "format":
        return "format:" + str(sval)
    if kw in ("enum", "const"):
        return kw + "-value-not-allowed"
    if kw == "type":
        return "type-mismatch:%s-for-%s" % (it, sval)
    return "other:" + str(kw)


# ---------------------------------------------------------------------- IR-level inputs
def ir_objects(schemas):
    return {(s["pkg"], o["name"]) for s in schemas for o in s["objects"]}


def ir_all_refs(x, out):
    if isinstance(x, dict):
        if x.get("k") in ("ref", "cref"):
            out.append((x.get("pkg"), x.get("name")))
        for v in x.values():
            ir_all_refs(v, out)
    elif isinstance(x, list):
        for v in x:
            ir_all_refs(v, out)


def ir_resolves(schemas):
    objs = ir_objects(schemas)
    refs = []
    for s in schemas:
        ir_all_refs(s["objects"], refs)
        if s.get("entry") and (s["pkg"], s["entry"]) not in objs:
            return False
    return all(r in objs for r in refs)


def ir_alias_acyclic(schemas):
    """no object is, without passing through a struct field / array element / map value, defined by itself:
    `A: ref A`, `A: ref B, B: ref A`, `A: A | B` denote nothing (and validators loop on them)"""
    edges = {}

    def unguarded(t, out):
        k = t.get("k")
        if k == "ref":
            out.append((t.get("pkg"), t.get("name")))
        elif k in ("disj", "inter"):
            for b_ in t.get("branches") or []:
                unguarded(b_, out)

    for s in schemas:
        for o in s["objects"]:
            out = []
            unguarded(o["type"], out)
            edges[(s["pkg"], o["name"])] = out
    state = {}

    def visit(n):
        if state.get(n) == 1:
            return False
        if state.get(n) == 2 or n not in edges:
            return True
        state[n] = 1
        for m in edges[n]:
            if not visit(m):
                return False
        state[n] = 2
        return True
    return all(visit(n) for n in list(edges))


def ir_names_unique(schemas):
    for s in schemas:
        names = [o["name"] for o in s["objects"]]
        if len(set(names)) != len(names):
            return False
    return len({s["pkg"] for s in schemas}) == len(schemas)


SEED_IRS = [
    # a foreign object whose bare name is also a local object: the local definition is overwritten
    ("foreign-name-clash", [
        {"pkg": "alpha", "meta": {}, "entry": "", "objects": [
            {"name": "Item", "type": {"k": "struct", "fields": [{"name": "mine", "type": {"k": "scalar", "sk": "string"}, "req": True}]}},
            {"name": "Holder", "type": {"k": "struct", "fields": [{"name": "other", "type": {"k": "ref", "pkg": "beta", "name": "Item"}, "req": True},
                                                                 {"name": "own", "type": {"k": "ref", "pkg": "alpha", "name": "Item"}, "req": True}]}}]},
        {"pkg": "beta", "meta": {}, "entry": "", "objects": [
            {"name": "Item", "type": {"k": "struct", "fields": [{"name": "theirs", "type": {"k": "scalar", "sk": "int64"}, "req": True}]}}]}]),
    # a foreign recursive type: the foreign-object loop never ends
    ("foreign-recursive", [
        {"pkg": "alpha", "meta": {}, "entry": "", "objects": [
            {"name": "Root", "type": {"k": "struct", "fields": [{"name": "x", "type": {"k": "ref", "pkg": "beta", "name": "Node"}, "req": True}]}}]},
        {"pkg": "beta", "meta": {}, "entry": "", "objects": [
            {"name": "Node", "type": {"k": "struct", "fields": [{"name": "next", "type": {"k": "ref", "pkg": "beta", "name": "Node"}, "req": False}]}}]}]),
    # constant reference, intersection, nullable, duplicated constraint, comments, defaults
    ("constref-intersection", [
        {"pkg": "alpha", "meta": {"kind": "core", "variant": "", "id": "Ident"}, "entry": "Root", "entrytype": {"k": "ref", "pkg": "alpha", "name": "Root"}, "objects": [
            {"name": "Kind", "type": {"k": "enum", "values": [{"type": {"k": "scalar", "sk": "string"}, "name": "A", "val": {"t": "str", "v": "a"}},
                                                            {"type": {"k": "scalar", "sk": "string"}, "name": "B", "val": {"t": "str", "v": "b"}}]}},
            {"name": "Base", "comments": ["the base", "second line"], "type": {"k": "struct", "fields": [{"name": "id", "type": {"k": "scalar", "sk": "string"}, "req": True}]}},
            {"name": "Root", "type": {"k": "struct", "fields": [
                {"name": "kind", "type": {"k": "cref", "pkg": "alpha", "name": "Kind", "val": {"t": "str", "v": "a"}}, "req": True},
                {"name": "both", "type": {"k": "inter", "branches": [{"k": "ref", "pkg": "alpha", "name": "Base"},
                                                                   {"k": "struct", "fields": [{"name": "extra", "type": {"k": "scalar", "sk": "bool"}, "req": True}]}]}, "req": True},
                {"name": "maybe", "comments": ["may be null"], "type": {"k": "scalar", "sk": "string", "null": True}, "req": True},
                {"name": "n", "type": {"k": "scalar", "sk": "int64", "def": {"t": "int64", "v": 3},
                                       "cs": [{"op": ">=", "args": [{"t": "int64", "v": 1}]}, {"op": "<", "args": [{"t": "int64", "v": 20}]}]}, "req": False},
                {"name": "f", "type": {"k": "scalar", "sk": "float64", "def": {"t": "float64", "v": "1.5"}}, "req": False},
                {"name": "tags", "type": {"k": "array", "v": {"k": "scalar", "sk": "string"}, "def": {"t": "list", "v": [{"t": "str", "v": "x"}]}}, "req": False}]}}]}]),
]


INT_KINDS = ("int64", "int32", "int16", "int8", "uint8", "uint16", "uint32", "uint64")


def dyn_fits(d, t):
    """the default value d (harness dyn JSON) is a value of the IR type t (scalars and arrays of scalars only)"""
    if d is None or not isinstance(t, dict):
        return False
    if t.get("k") == "scalar" and t.get("val") is None:
        sk, dt = t.get("sk"), d.get("t")
        if sk == "string":
            return dt == "str"
        if sk == "bool":
            return dt == "bool"
        if sk in INT_KINDS:
            return dt == sk and (not sk.startswith("u") or d.get("v", 0) >= 0)
        if sk in ("float64", "float32"):
            return dt == sk
        return False
    if t.get("k") == "array" and d.get("t") == "list":
        return all(dyn_fits(x, t.get("v")) for x in d.get("v") or [])
    return False


def sanitize_ir(x):
    """directly constructed IRs must be well-typed to count as inputs: a default whose dynamic Go type is not the
    type of the position it sits on is dropped (gen/irgen.py attaches random defaults for the copy/pass checks)"""
    if isinstance(x, dict):
        if "k" in x and x.get("def") is not None and not dyn_fits(x["def"], x):
            x = dict(x)
            del x["def"]
        return {k: sanitize_ir(v) for k, v in x.items()}
    if isinstance(x, list):
        return [sanitize_ir(v) for v in x]
    return x


def gen_ir_jobs(rng, n, depth):
    jobs = []
    for name, schemas in SEED_IRS:
        jobs.append({"origin": "seed:" + name, "schemas": schemas})
    for i in range(n):
        g = irgen.IRGen(rng, max_depth=depth, features={"resolving": True, "acyclic_aliases": True, "twins": 0.2})
        jobs.append({"origin": "irgen", "schemas": sanitize_ir(g.schemas())})
    return jobs


# ---------------------------------------------------------------------- Gallina cases
def ocase_term(ctx_name, pkg, js_doc, oa_doc, validations):
    def opt(d):
        return "None" if d is None else "(Some %s)" % srcgen.doc_to_gallina(d)
    vs = "; ".join("(%s, %s, %s)" % (srcgen.g_str(t), srcgen.doc_to_gallina(d), "true" if v else "false") for t, d, v in validations)
    return "(%s, %s, %s, %s, [%s])" % (ctx_name, srcgen.g_str(pkg), opt(js_doc), opt(oa_doc), vs)


def eval_ocases(ctx, name, cases, shard=40):
    """cases: list of (context gallina term, ocase builder args).  Each shard file defines its contexts."""
    shards = [list(range(i, min(i + shard, len(cases)))) for i in range(0, len(cases), shard)]

    def do(k):
        ids = shards[k]
        pre = gencode.PREAMBLE % "Model.JsonSchemaOutCheck"
        for i in ids:
            pre += "Definition ctx_%d : schemas := %s.\n" % (i, cases[i]["ctx"])
        pre += "Definition cases : list ocase :=\n[%s].\n" % ";\n".join(
            ocase_term("ctx_%d" % i, cases[i]["pkg"], cases[i]["js"], cases[i]["oa"], cases[i]["vals"]) for i in ids)
        pre += ("Fixpoint indices_from {A} (f : A -> bool) (l : list A) (i : nat) : list nat :=\n"
                "  match l with [] => [] | x :: r => if f x then i :: indices_from f r (S i) else indices_from f r (S i) end.\n")
        r = core.coq_eval_lists(ctx, "%s_%d" % (name, k), pre, [(ident, "indices_from (%s) cases 0" % fn) for ident, fn in EVAL_DEFS])
        return {ident: [ids[x] for x in r[ident]] for ident, _ in EVAL_DEFS}

    out = {ident: [] for ident, _ in EVAL_DEFS}
    for p in core.parallel(do, list(range(len(shards)))):
        for k_, v in p.items():
            out[k_] += v
    for k_ in out:
        out[k_].sort()
    return out


def read_doc(path):
    try:
        return gencode_out.load_json(path)
    except (OSError, ValueError):
        return None


# ---------------------------------------------------------------------- the check
def run(ctx, verdict, replay=None, model_ok=True):
    rng = ctx.rng
    thorough = ctx.tier == "thorough"
    batch = gencode_out.OutBatch(ctx, "c12")
    texts, plan, replay_a, ir_jobs = {}, [], [], []
    if replay:
        rp = json.load(open(replay))
        job = rp.get("job") or rp["first_mismatch"]["job"]
        if job.get("stream") == "B":
            ir_jobs = [{"origin": "replay", "schemas": job["schemas"]}]
        else:
            sid = batch.add({"pkg": job["pkg"], "root": "Root", "defs": [], "fmt": job["fmt"]}, job["fmt"], text=job["schema_text"])
            texts[sid] = job["schema_text"]
            replay_a.append((sid, job))
    else:
        cdir = os.path.join(core.VERIF, "corpus", "C12")
        if os.path.isdir(cdir):
            for f in sorted(os.listdir(cdir)):
                job = json.load(open(os.path.join(cdir, f)))["job"]
                if job.get("stream") == "B":
                    ir_jobs.append({"origin": "corpus:" + f, "schemas": job["schemas"]})
                else:
                    pkg = "k%03d" % len(replay_a)
                    text = re.sub(r"(?m)^package \w+", "package " + pkg, job["schema_text"])
                    sid = batch.add({"pkg": pkg, "root": "Root", "defs": [], "fmt": job["fmt"]}, job["fmt"], text=text)
                    texts[sid] = text
                    replay_a.append((sid, dict(job, pkg=pkg, schema_text=text)))
        per_fmt = 200 if thorough else 16
        k = 0
        for fmt in srcgen.FORMATS:
            for _ in range(per_fmt):
                s = srcgen.SrcGen(rng, max_depth=4 if thorough else 3, fmt=fmt).schema("s%03d" % k)
                k += 1
                text = srcgen.render(s, fmt)
                texts[s["pkg"]] = text
                batch.add(s, fmt, text=text)
                plan.append((s["pkg"], s))
        ir_jobs += gen_ir_jobs(rng, 400 if thorough else 45, 4 if thorough else 3)

    # ================= stream A: real pipeline, Go driver
    batch.generate()
    batch.build_driver()
    gen_hist = {}
    for sid, g in batch.gen.items():
        key = batch.schemas[sid][1] + ":" + (g.status if g.status == "OK" else g.status + "@" + g.stage)
        gen_hist[key] = gen_hist.get(key, 0) + 1
    ctx.log("stream A: cog ran on %d schemas %s; %d packages do not compile" % (len(batch.schemas), gen_hist, len(batch.compile_errors)))
    generated = [sid for sid in batch.schemas if batch.gen[sid].status == "OK"]
    drivable = set(batch.ok_sids())
    jobs = []
    ndocs = 40 if thorough else 24
    for sid, job in replay_a:
        if sid in drivable:
            jobs.append({"id": sid, "sid": sid, "type": job["type"], "docs": list(job["docs"]), "ops": ["std", "validate"],
                         "kinds": ["replay"] * len(job["docs"])})
    for sid, s in plan:
        if sid not in drivable or s["root"] not in {o["name"] for o in batch.struct_objects(sid)}:
            continue
        dg = srcgen.DocGen(rng, s)
        docs, kinds = [], []
        for _ in range(ndocs):
            d = dg.valid()
            kind = "valid"
            if rng.random() < 0.15:
                v = dg.empty_variant(d)
                if v is not None:
                    d, kind = v, "valid+empty-collections"
            docs.append(srcgen.dumps(d))
            kinds.append(kind)
        jobs.append({"id": sid, "sid": sid, "type": s["root"], "docs": docs, "ops": ["std", "validate"], "kinds": kinds})
    results = batch.run(jobs)
    # hypothesis: the source document is accepted by the source schema's own validator
    live = [i for i, r in enumerate(results) if r is not None and r.get("known")]
    src_items = [{"fmt": batch.schemas[jobs[i]["sid"]][1], "path": batch.schema_path(jobs[i]["sid"]), "type": jobs[i]["type"],
                  "docs": jobs[i]["docs"]} for i in live]
    src_verdicts = gencode.ref_validate(ctx, src_items)
    encoded = {}          # sid -> [(doc text of the encoding, source doc index, kind)]
    n_src = n_acc = n_invalid_value = 0
    for i, v in zip(live, src_verdicts):
        j, r = jobs[i], results[i]
        n_src += len(j["docs"])
        lst = []
        for d, x in enumerate(r["res"]):
            if v is None or d >= len(v) or v[d] != "1":
                continue
            n_acc += 1
            if x["std"] == "ok" and x.get("vals") not in ("ok", "", None):
                n_invalid_value += 1          # the decoded value breaks a constraint: its own Validate() says so
                continue
            if x["std"] == "ok" and x.get("encs") == "ok" and x["enc"] is not None:
                lst.append((srcgen.dumps(x["enc"]), d, j["kinds"][d]))
        encoded[j["sid"]] = (j, lst, r)
    ctx.log("stream A: driver ran %d jobs; reference validators accepted %d of %d source documents; %d decoded values fail their own Validate()"
            % (len(jobs), n_acc, n_src, n_invalid_value))

    # ================= stream B: directly constructed IRs
    for n, j in enumerate(ir_jobs):
        j["id"] = "ir%03d" % n
        j["outdir"] = os.path.join(ctx.scratch, "c12ir", j["id"])
    langs = [{"jsonschema": {}}, {"openapi": {}}]
    ir_res = gencode_out.run_genir(ctx, [{"id": j["id"], "schemas": j["schemas"], "outdir": j["outdir"], "output": {"types": True},
                                          "langs": langs, "irlangs": ["jsonschema"], "timeout_s": 5} for j in ir_jobs], timeout=120)
    stuck = [n for n, r in enumerate(ir_res) if r is None or r["status"] in ("TIMEOUT",)]
    if stuck:
        # the context of a run that did not come back: chains only
        again = gencode_out.run_genir(ctx, [{"id": ir_jobs[n]["id"], "schemas": ir_jobs[n]["schemas"], "outdir": ir_jobs[n]["outdir"],
                                             "output": {"types": True}, "langs": langs, "irlangs": ["jsonschema"], "nogen": True}
                                            for n in stuck], timeout=120)
        for n, r in zip(stuck, again):
            ir_jobs[n]["ctx_only"] = r
    ir_hist = {}
    for r in ir_res:
        key = "FATAL" if r is None else r["status"] + ":" + "+".join("%s=%s" % (l, v["status"]) for l, v in sorted((r.get("langs") or {}).items()))
        ir_hist[key] = ir_hist.get(key, 0) + 1
    ctx.log("stream B: %d IR inputs %s" % (len(ir_jobs), ir_hist))

    # ================= the emitted documents: one `unit` per (context, package)
    units = []
    for sid in generated:
        units.append({"stream": "A", "sid": sid, "pkg": sid, "ctx": batch.ir[sid].get("jsonschema", ""),
                      "facts": json.loads(json.dumps(batch.facts[sid].get("jsonschema") or [])),
                      "js_path": batch.emitted(sid, "jsonschema"), "oa_path": batch.emitted(sid, "openapi"),
                      "resolves": True, "job": {"stream": "A", "fmt": batch.schemas[sid][1], "pkg": sid, "schema_text": texts[sid],
                                                "type": "Root", "docs": []}})
    for n, (j, r) in enumerate(zip(ir_jobs, ir_res)):
        job = {"stream": "B", "schemas": j["schemas"], "origin": j["origin"]}
        if r is None or r["status"] == "TIMEOUT":
            c = j.get("ctx_only")
            units.append({"stream": "B", "sid": j["id"], "pkg": None, "hang": True, "job": job,
                          "ctx": ((c or {}).get("ir") or {}).get("jsonschema", ""),
                          "pkgs": [s["pkg"] for s in j["schemas"]], "resolves": ir_resolves(j["schemas"]) and ir_alias_acyclic(j["schemas"])})
            continue
        if r["status"] != "OK":
            continue
        lj, lo = (r.get("langs") or {}).get("jsonschema", {}), (r.get("langs") or {}).get("openapi", {})
        if not ir_names_unique(j["schemas"]):
            continue
        for s in j["schemas"]:
            units.append({"stream": "B", "sid": j["id"], "pkg": s["pkg"], "ctx": (r.get("ir") or {}).get("jsonschema", ""),
                          "facts": (r.get("facts") or {}).get("jsonschema") or [],
                          "js_path": os.path.join(j["outdir"], "jsonschema", s["pkg"] + ".jsonschema.json") if lj.get("status") == "OK" else None,
                          "oa_path": os.path.join(j["outdir"], "openapi", s["pkg"] + ".openapi.json") if lo.get("status") == "OK" else None,
                          "lang_status": {"jsonschema": lj.get("status"), "openapi": lo.get("status")},
                          "lang_message": {"jsonschema": lj.get("message", ""), "openapi": lo.get("message", "")},
                          "resolves": ir_resolves(j["schemas"]) and ir_alias_acyclic(j["schemas"]), "job": job})

    budget = {"n": 60}

    def report(sig, unit, extra=None):
        if budget["n"] <= 0:
            return
        payload = {"job": unit["job"], "package": unit.get("pkg")}
        payload.update(extra or {})
        if verdict.propfail(sig, payload) == "violation":
            budget["n"] -= 1

    counts = {}

    def count(k_):
        counts[k_] = counts.get(k_, 0) + 1

    # ---- validity of the emitted documents, structure, carried-over facts (no model involved)
    rp_items, rp_owner = [], []
    for u in units:
        if u.get("hang"):
            if not u["resolves"]:
                count("emission-does-not-terminate(ill-formed input: dangling or cyclic alias)")
                continue
            count("emission-does-not-terminate")
            report({"kind": "emission-does-not-terminate", "cause": "foreign-recursive-type" if len(u["pkgs"]) > 1 else "other"}, u)
            continue
        for kind, key in (("jsonschema", "js_path"), ("openapi", "oa_path")):
            p = u.get(key)
            if u["stream"] == "B" and u.get("lang_status", {}).get(kind) not in ("OK", None):
                st = u["lang_status"][kind]
                if st == "PANIC":
                    count("jenny-panics")
                    report({"kind": "jenny-panics", "format": kind, "cause": jenny_panic_cause(u["lang_message"][kind])}, u,
                           {"observed": u["lang_message"][kind]})
                continue
            if not p or not os.path.exists(p):
                continue
            doc = read_doc(p)
            u[kind] = doc
            if doc is None:
                count("not-json")
                report({"kind": "emitted-document-is-not-json", "format": kind, "cause": "parse"}, u)
                continue
            rp_items.append({"format": kind, "path": p, "pkg": u["pkg"]})
            rp_owner.append((u, kind))
            # every $ref resolves
            if u["resolves"]:
                bad = gencode_out.dangling_refs(doc, kind)
                if bad:
                    count("dangling-ref")
                    report({"kind": "dangling-$ref", "format": kind, "cause": "target-not-in-definitions"}, u,
                           {"observed": [list(map(str, p_)) + [r_] for p_, r_ in bad[:5]]})
            # every object and field present under its own name; facts carried over
            defs = gencode_out.definitions_of(doc, kind)
            mine = [s for s in u["facts"] if s["pkg"] == u["pkg"]]
            diffs = []
            for s in mine:
                names = [o["name"] for o in s["objects"]]
                for o in s["objects"]:
                    if o["name"] not in defs:
                        diffs.append(((o["name"],), "presence", "object-missing", ""))
                        continue
                    if names.count(o["name"]) > 1:
                        continue
                    compare(o["t"], defs[o["name"]], (o["name"],), diffs, kind)
                if kind == "jsonschema" and s.get("entry") and doc.get("$ref") != "#/definitions/" + s["entry"]:
                    diffs.append((("$ref",), "presence", "entry-point-not-referenced", ""))
            foreign_names = set(defs) - {o["name"] for s in mine for o in s["objects"]}
            u.setdefault("foreign_defs", {})[kind] = sorted(foreign_names)
            seen = set()
            for path, facet, cause, detail in diffs:
                # a local object replaced by a foreign one of the same bare name: everything below it differs
                other = [s["pkg"] for s in u["facts"] if s["pkg"] != u["pkg"] and any(o["name"] == path[0] for o in s["objects"])]
                if other and u["stream"] == "B" and cause != "object-missing":
                    facet, cause = "presence", "definition-replaced-by-foreign-object-of-the-same-name"
                if (facet, cause) in seen:
                    continue
                seen.add((facet, cause))
                count("%s:%s" % (facet, cause))
                report({"kind": "not-carried-over" if facet != "presence" else "object-or-field-not-present", "format": kind,
                        "facet": facet, "cause": cause}, u, {"path": list(path), "detail": detail})
            # OpenAPI 3.0: a Reference Object has no siblings
            if kind == "openapi":
                sib = ref_siblings(defs)
                if sib:
                    u["oa_ref_siblings"] = sib
    rp = gencode_out.reparse(ctx, rp_items)
    loaders, roundtrip_hist = {}, {}
    for (u, kind), r in zip(rp_owner, rp):
        if r is None:
            count("reparse-fatal")
            report({"kind": "cog-parser-rejects-emitted-document", "format": kind, "cause": "fatal"}, u)
            continue
        u.setdefault("reparse", {})[kind] = r
        lk = "%s:loader=%s" % (kind, "ok" if r.get("loader") == "ok" else "error")
        loaders[lk] = loaders.get(lk, 0) + 1
        dangling_input = not u["resolves"]
        local_names = {o["name"] for s_ in u["facts"] if s_["pkg"] == u["pkg"] for o in s_["objects"]}
        clash = any(o["name"] in local_names for s_ in u["facts"] if s_["pkg"] != u["pkg"] for o in s_["objects"])

        def refine(cause):
            # a local alias named like its foreign target becomes a self-reference
            if clash and cause in ("unresolved-ref", "meta-schema"):
                return "definition-replaced-by-foreign-object-of-the-same-name"
            return cause
        if r.get("loader") and r["loader"] != "ok":
            cause = refine(loader_cause(r["loader"]))
            if not (dangling_input and cause in ("unresolved-ref", "meta-schema")):
                count("loader-rejects")
                report({"kind": "independent-loader-rejects-emitted-document", "format": kind, "cause": cause}, u, {"observed": r["loader"]})
        if kind == "openapi" and r.get("validate") and r["validate"] != "ok":
            cause = refine(loader_cause(r["validate"]))
            if cause == "openapi-extra-keyword" and u.get("oa_ref_siblings"):
                cause = "openapi-$ref-with-sibling-keywords"
            if not (dangling_input and cause in ("unresolved-ref", "meta-schema")):
                count("openapi-validate-rejects")
                report({"kind": "independent-loader-rejects-emitted-document", "format": kind, "cause": cause}, u, {"observed": r["validate"]})
        if r["status"] != "OK":
            cause = "panic:" + loader_cause(r.get("message", "")) if r["status"] == "PANIC" else refine(loader_cause(r.get("message", "")))
            # cog's parser refusing what the independent loader already refused is the same failure
            if (r.get("loader") == "ok" and (kind != "openapi" or r.get("validate") == "ok")) or r["status"] == "PANIC":
                if not (dangling_input and cause in ("unresolved-ref", "meta-schema")):
                    count("cog-parser-rejects")
                    report({"kind": "cog-parser-rejects-emitted-document", "format": kind, "cause": cause}, u, {"observed": r.get("message")})
            continue
        # informational: required-ness, constraints, enum values, defaults as cog's own parser reads them back
        if kind == "jsonschema":
            for facet, cause, path in roundtrip_diffs(u["facts"], u["pkg"], json.loads(json.dumps(r.get("facts") or []))):
                roundtrip_hist["%s:%s" % (facet, cause)] = roundtrip_hist.get("%s:%s" % (facet, cause), 0) + 1

    # ---- python check_schema + encoded values against the emitted JSON Schema
    pv_items, pv_owner = [], []
    for u in units:
        if u.get("jsonschema") is None:
            continue
        docs, tname, meta = [], None, []
        if u["stream"] == "A" and u["sid"] in encoded:
            j, lst, _ = encoded[u["sid"]]
            tname = j["type"]
            docs = [e for e, _, _ in lst]
            meta = lst
        pv_items.append({"path": u["js_path"], "type": tname, "docs": docs})
        pv_owner.append((u, meta))
    pv = gencode_out.py_validate(ctx, pv_items)
    n_enc = n_enc_ok = 0
    rej_hist = {}
    for (u, meta), it, v in zip(pv_owner, pv_items, pv):
        if not v["schema_ok"]:
            count("check_schema-fails")
            report({"kind": "independent-loader-rejects-emitted-document", "format": "jsonschema",
                    "cause": "check_schema:" + loader_cause(v["schema_error"])}, u, {"observed": v["schema_error"]})
            continue
        u["verdicts"] = []
        for e, dv, (_, d_idx, kind_) in zip(it["docs"], v["docs"], meta):
            n_enc += 1
            u["verdicts"].append((it["type"], e, dv["ok"]))
            if dv["ok"]:
                n_enc_ok += 1
                continue
            cause = rejection_cause(dv, u["facts"], u["pkg"], it["type"])
            j = encoded[u["sid"]][0]
            if cause not in ("any-emitted-as-type-object", "nullable-not-expressed", "uint8-array-encoded-as-base64-string"):
                ch = changed_by_roundtrip(srcgen.loads(j["docs"][d_idx]), srcgen.loads(e), dv.get("ipath") or [])
                if ch:
                    cause = "value-changed-by-go-roundtrip:" + ch
            rej_hist[cause] = rej_hist.get(cause, 0) + 1
            report({"kind": "encoded-value-rejected-by-emitted-schema", "format": "jsonschema", "cause": cause}, u,
                   {"source_document": j["docs"][d_idx], "encoded": e, "error": dv,
                    "job": dict(u["job"], type=j["type"], docs=[j["docs"][d_idx]])})
    ctx.log("encoded values: %d validated against the emitted JSON Schema, %d accepted; rejections %s" % (n_enc, n_enc_ok, rej_hist))

    # ---- the same encodings against the emitted OpenAPI document (kin-openapi)
    oa_items, oa_owner = [], []
    for u in units:
        if u["stream"] != "A" or u.get("openapi") is None or u["sid"] not in encoded:
            continue
        if (u.get("reparse", {}).get("openapi") or {}).get("loader") != "ok":
            continue
        j, lst, _ = encoded[u["sid"]]
        if lst:
            oa_items.append({"fmt": "openapi", "path": u["oa_path"], "type": j["type"], "docs": [e for e, _, _ in lst]})
            oa_owner.append((u, j, lst))
    oa_verdicts = gencode.ref_validate(ctx, oa_items) if oa_items else []
    n_oa = n_oa_ok = 0
    for (u, j, lst), v in zip(oa_owner, oa_verdicts):
        if v is None:
            continue
        js_ok = {e: ok for (_, e, ok) in u.get("verdicts", [])}
        for (e, d_idx, _), bit in zip(lst, v):
            n_oa += 1
            if bit == "1":
                n_oa_ok += 1
            elif js_ok.get(e, False):
                # rejected by the OpenAPI document although the JSON Schema document accepts it
                count("openapi-only-rejection")
                report({"kind": "encoded-value-rejected-by-emitted-schema", "format": "openapi",
                        "cause": "openapi-only:null-inside-untyped-value" if "null" in e else "openapi-only:other"}, u,
                       {"source_document": j["docs"][d_idx], "encoded": e,
                        "job": dict(u["job"], type=j["type"], docs=[j["docs"][d_idx]])})
    ctx.log("encoded values: %d validated against the emitted OpenAPI document (kin-openapi), %d accepted" % (n_oa, n_oa_ok))

    # ================= the model
    cases = []
    for u in units:
        if not u.get("ctx"):
            continue
        if u.get("hang"):
            for p in u["pkgs"]:
                cases.append({"ctx": u["ctx"], "pkg": p, "js": None, "oa": None, "vals": [], "unit": u})
            continue
        if u.get("jsonschema") is None and u.get("openapi") is None:
            continue
        vals = [(t, srcgen.loads(e), ok) for (t, e, ok) in (u.get("verdicts") or [])[: (40 if thorough else 16)]]
        cases.append({"ctx": u["ctx"], "pkg": u["pkg"], "js": u.get("jsonschema"), "oa": u.get("openapi"), "vals": vals, "unit": u})
    ev = eval_ocases(ctx, "cases_C12", cases) if (cases and model_ok) else {k_: [] for k_, _ in EVAL_DEFS}
    ctx.log("coq evaluated %d cases: %s" % (len(cases), " ".join("%s=%d" % (k_, len(v)) for k_, v in ev.items())))
    unexplained = []
    fuel = set(ev["M_FUEL"])
    hang_cases = [i for i, c in enumerate(cases) if c["unit"].get("hang")]
    # a run that never returned: the model must say OutOfFuel for one of its packages
    by_unit = {}
    for i in hang_cases:
        by_unit.setdefault(cases[i]["unit"]["sid"], []).append(i)
    for sid, idxs in by_unit.items():
        if not any(i in fuel for i in idxs):
            unexplained.append({"job": cases[idxs[0]]["unit"]["job"], "which": ["run did not return, model terminates"]})
    for i in fuel:
        if not cases[i]["unit"].get("hang"):
            unexplained.append({"job": cases[i]["unit"]["job"], "which": ["model does not terminate, run returned"], "package": cases[i]["pkg"]})
    for key in ("MM_JS", "MM_OA", "MM_VALID"):
        for i in ev[key][:10]:
            unexplained.append({"job": cases[i]["unit"]["job"], "which": [key], "package": cases[i]["pkg"]})
    # the model's structural predicates agree with what was observed on the files
    for i in ev["M_DANGLE"]:
        u = cases[i]["unit"]
        if u.get("jsonschema") is not None and not gencode_out.dangling_refs(u["jsonschema"], "jsonschema") and i not in ev["MM_JS"]:
            unexplained.append({"job": u["job"], "which": ["model: dangling $ref, file: none"], "package": cases[i]["pkg"]})

    # generated Go that does not compile cannot encode anything: recorded, belongs to C02
    not_compiling = len(batch.compile_errors)

    # ================= coverage
    distinct, nontriv = set(), 0
    cons_hist = {}
    schema_by = dict(plan)
    for sid, (j, lst, _) in encoded.items():
        s = schema_by.get(sid)
        for e, d_idx, _ in lst:
            h = core.canon_hash([sid, e])
            if h in distinct:
                continue
            distinct.add(h)
            cs = set()
            if s is not None:
                try:
                    cs = srcgen.constructs(s, srcgen.loads(j["docs"][d_idx]), j["type"])
                except Exception:
                    pass
            for c in cs:
                cons_hist[c] = cons_hist.get(c, 0) + 1
            if len(cs) >= 3:
                nontriv += 1
    ir_kinds = {}
    for j in ir_jobs:
        kinds = set()
        _ir_kinds(j["schemas"], kinds)
        if len(j["schemas"]) > 1:
            kinds.add("multi-package")
        for k_ in kinds:
            ir_kinds[k_] = ir_kinds.get(k_, 0) + 1
    samples = []
    for sid, (j, lst, _) in list(encoded.items())[:3]:
        if lst:
            samples.append({"format": batch.schemas[sid][1], "source_document": j["docs"][lst[0][1]], "encoded": lst[0][0]})
    cov = {
        "evaluations": n_enc + len([u for u in units if not u.get("hang")]),
        "encoded_values_validated": n_enc,
        "encoded_values_accepted": n_enc_ok,
        "encoded_values_validated_openapi": n_oa,
        "emitted_documents_checked": len(rp_items),
        "distinct_nontrivial": nontriv + len([u for u in units if u["stream"] == "B" and not u.get("hang") and len(u["facts"]) > 1]),
        "rule": "one evaluation = one encoded value validated against the emitted JSON Schema, or one (context, package) whose emitted documents went through every structural check; distinct by hash of (schema, encoding); non-trivial = the source document exercises >= 3 distinct constructs of its schema (stream A) / the context has >= 2 packages (stream B)",
        "samples": samples or [{"note": "no encoded value in this run (replay of a structural case)"}],
        "stream_A_schemas": len(batch.schemas),
        "stream_A_cog_outcomes_by_format": gen_hist,
        "stream_A_packages_not_compiling": not_compiling,
        "stream_A_source_documents": n_src,
        "stream_A_source_documents_accepted": n_acc,
        "stream_B_ir_inputs": len(ir_jobs),
        "stream_B_outcomes": ir_hist,
        "stream_B_kind_histogram": ir_kinds,
        "construct_histogram": cons_hist,
        "rejection_causes": rej_hist,
        "property_failures_counted": counts,
        "loader_outcomes": loaders,
        "reparsed_by_cog_differences_informational": roundtrip_hist,
        "decoded_values_failing_their_own_Validate_skipped": n_invalid_value,
        "model_cases": len(cases),
        "model_unmodelled_cases": len(ev["UNM"]),
        "model_validator_gave_up_cases": len(ev["UNM_VALID"]),
        "mismatches_model_vs_impl": {k_: len(ev[k_]) for k_ in ("MM_JS", "MM_OA", "MM_VALID")},
        "model_says": {"dangling_refs": len(ev["M_DANGLE"]), "object_not_under_its_name": len(ev["M_MISSING"]), "does_not_terminate": len(ev["M_FUEL"])},
        "cases_validated_against_impl": len(cases) - len(ev["UNM"]) - len(set(ev["MM_JS"]) | set(ev["MM_OA"]) | set(ev["MM_VALID"])),
    }
    return {"coverage": cov, "unexplained_mismatches": unexplained[:20],
            "search_note": "construct-grammar schemas in three formats x re-encoded accepted documents, and directly constructed multi-package IRs; every emitted document through meta-schema, loaders, cog's parsers, $ref / presence / carried-over walks"}


def ref_siblings(defs):
    """`$ref` members that have sibling keywords, anywhere in schema position"""
    out = []

    def walk(sc, path):
        if not isinstance(sc, dict):
            return
        if "$ref" in sc and len(sc) > 1:
            out.append((list(path), sorted(k for k in sc if k != "$ref")))
        for k in ("items", "additionalProperties"):
            if isinstance(sc.get(k), dict):
                walk(sc[k], path + (k,))
        for k in ("anyOf", "oneOf", "allOf"):
            for i, b in enumerate(sc.get(k) or []):
                walk(b, path + (k, i))
        if isinstance(sc.get("properties"), dict):
            for n, p_ in sc["properties"].items():
                walk(p_, path + (n,))
    for n, d in defs.items():
        walk(d, (n,))
    return out


def changed_by_roundtrip(src, enc, ipath):
    """the value at (a prefix of) the failing position is not what the source document had there: decoding and
    re-encoding changed it (the subject of C01), which is what the emitted schema then rejects"""
    a, b = src, enc
    for p_ in list(ipath) + [None]:
        if not srcgen.json_same(a, b) if not isinstance(a, (dict, list)) or not isinstance(b, (dict, list)) else type(a) is not type(b):
            if a is None and b is not None:
                return "null-replaced-by-zero-value"
            if isinstance(a, (list, dict)) and not a and b is None:
                return "empty-collection-became-null"
            return "other"
        if p_ is None:
            return None
        try:
            if isinstance(a, list):
                a, b = a[int(p_)], b[int(p_)]
            elif isinstance(a, dict):
                if p_ not in a and p_ in b:
                    return "member-added"
                a, b = a[p_], b[p_]
            else:
                return None
        except (KeyError, IndexError, ValueError, TypeError):
            return None
    return None


def _ir_kinds(x, out):
    if isinstance(x, dict):
        if "k" in x:
            out.add(x["k"])
            if x.get("null"):
                out.add("nullable")
            if x.get("def") is not None:
                out.add("default")
            if x.get("cs"):
                out.add("constraint")
        for v in x.values():
            _ir_kinds(v, out)
    elif isinstance(x, list):
        for v in x:
            _ir_kinds(v, out)


def loader_cause(msg):
    msg = msg or ""
    table = [
        (r"extra sibling fields: \[const\]", "openapi-const-keyword"),
        (r"extra sibling fields: \[([^\]]*)\]", "openapi-extra-keyword"),
        (r"cannot unmarshal number into field Schema\.exclusiveM(in|ax)", "openapi-numeric-exclusive-bound"),
        (r"unsupported 'type' value \"null\"", "openapi-type-null"),
        (r"index out of range", "enum-without-type"),
        (r"cannot unmarshal", "openapi-keyword-of-wrong-json-type"),
        (r"found unresolved ref|bad data in \"#|failed to resolve|could not resolve|unable to resolve", "unresolved-ref"),
        (r"unsupported 'format' value", "openapi-format"),
        (r"does not appear to be describing anything", "undescriptive-schema"),
        (r"doesn't validate with|does not validate with|jsonschema .* compilation failed|invalid jsonType|is not valid under", "meta-schema"),
        (r"SchemaError", "meta-schema"),
    ]
    for pat, name in table:
        if re.search(pat, msg):
            return name
    return "other:" + re.sub(r"\"[^\"]*\"|'[^']*'|\[[^\]]*\]|\d+", "_", msg)[:70]


def jenny_panic_cause(msg):
    if "index out of range" in msg:
        return "constraint-without-argument"
    if "nil pointer" in msg:
        return "kind-without-payload"
    if "json: unsupported" in msg:
        return "value-json-cannot-marshal"
    return "other:" + re.sub(r"\d+", "_", msg)[:60]


def roundtrip_diffs(facts, pkg, back):
    """required-ness / constraints / enum values / defaults of every object of `pkg` as the IR has them versus as
    cog's own parser reads them back from the emitted JSON Schema.  -> [(facet, cause, path)] (first of each cause)"""
    out, seen = [], set()
    mine = [s for s in facts if s["pkg"] == pkg]
    back_objs = {o["name"]: o["t"] for s in back for o in s["objects"]}

    def add(facet, cause, path):
        if (facet, cause) not in seen:
            seen.add((facet, cause))
            out.append((facet, cause, list(path)))

    def walk(a, b, path):
        if a is None or b is None:
            return
        ka, kb = a["kind"], b["kind"]
        if ka == "struct" and kb == "struct":
            fb = {f["name"]: f for f in b.get("fields") or []}
            names = [f["name"] for f in a.get("fields") or []]
            for f in a.get("fields") or []:
                if names.count(f["name"]) > 1:
                    continue
                g = fb.get(f["name"])
                if g is None:
                    add("presence", "field-lost", path + (f["name"],))
                    continue
                if f["req"] != g["req"]:
                    add("required", "required-flag-differs", path + (f["name"],))
                da, db = f["t"].get("default"), g["t"].get("default")
                if ("default" in f["t"]) != ("default" in g["t"]) or (da is not None and not srcgen.json_same(_num(da), _num(db))):
                    add("default", "default-" + ("lost" if "default" not in g["t"] else "differs"), path + (f["name"],))
                walk(f["t"], g["t"], path + (f["name"],))
        elif ka == "scalar" and kb == "scalar":
            ca = sorted((c[0], json.dumps(c[1])) for c in a.get("cs") or [])
            cb = sorted((c[0], json.dumps(c[1])) for c in b.get("cs") or [])
            if ca != cb and not _same_constraints(a.get("cs") or [], b.get("cs") or []):
                add("constraint", "constraints-differ", path)
            if ("const" in a) != ("const" in b) or ("const" in a and not srcgen.json_same(_num(a["const"]), _num(b["const"]))):
                add("const", "const-" + ("lost" if "const" not in b else "differs"), path)
        elif ka == "enum" and kb == "enum":
            if len(a.get("enum") or []) != len(b.get("enum") or []) or not all(
                    srcgen.json_same(_num(x), _num(y)) for x, y in zip(a.get("enum") or [], b.get("enum") or [])):
                add("enum", "enum-values-differ", path)
        elif ka in ("array", "map") and kb == ka:
            walk(a.get("of"), b.get("of"), path + ("[]",))
        elif ka == "disjunction" and kb == "disjunction":
            for i, (x, y) in enumerate(zip(a.get("branches") or [], b.get("branches") or [])):
                walk(x, y, path + ("|%d" % i,))
        elif ka == "ref" and kb == "ref":
            pass
        elif ka != kb:
            if ka == "scalar" and a.get("scalar") == "any":
                add("kind", "any-read-back-as-map", path)
            elif ka == "composable_slot":
                add("kind", "composable-slot-read-back-as-map", path)
            elif ka in ("constant_ref", "intersection"):
                add("kind", ka + "-read-back-as-any", path)
            elif ka == "enum" or kb == "enum":
                add("enum", "enum-read-back-as-" + kb, path)
            else:
                add("kind", "%s-read-back-as-%s" % (ka, kb), path)

    for s in mine:
        names = [o["name"] for o in s["objects"]]
        for o in s["objects"]:
            if names.count(o["name"]) > 1 or o["name"] not in back_objs:
                continue
            walk(o["t"], back_objs[o["name"]], (o["name"],))
    return out


def _same_constraints(a, b):
    def norm(cs):
        return sorted((c[0], str(_num(c[1]))) for c in cs)
    try:
        return norm(a) == norm(b)
    except Exception:
        return False
