"""C14 — Go converters invert builders: the code a converter returns rebuilds the object it was given.

Theorems: coq/Props/C14.v over coq/Model/Converter.v (languages.ConverterGenerator.FromBuilder and the meaning of
the Go printed from its mappings by converters/converter.tmpl) composed with coq/Model/BuilderEval.v (C09's
builder_eval).
Tie to the code: correspondence with a two-stage build.  Construct-grammar schemas (+ builder veneers) go through
the real cog with `builders: true, converters: true`; stage 1: a driver compiled against the generated packages
decodes sample documents into the generated types and calls the generated <Builder>Converter on them; stage 2:
every returned text is compiled as a Go expression over the generated builder API (one function per text, compile
errors isolated) and executed; the object it builds is dumped.  (The generated runtime lacks cog.Dump, which the
converters call: the driver module supplies cog's own reference implementation, drivers/go_bld/dump.go.txt; the
gap itself is C02's finding.)
MISMATCH = the model's emitted calls / rebuilt object differ from the real ones.  PROPFAIL = the property on the
real output: the text compiles, builds without error for a value that validates, the rebuilt object equals the
value in every field that differs from the builder's defaults, options that are needed appear and direct options
appear at most once."""
import json
import os
import re

from gen import srcgen
from vlib import core, gencode, gencode_bld as gb
from checks import c09

COQ_TARGETS = ["Props/C14.vo", "Model/ConverterCheck.vo"]
PROPS = "Props/C14.v"
TRUSTED = [
    "hand-written Gallina model of ConverterGenerator.FromBuilder and of the Go the converter template prints (coq/Model/Converter.v), composed with the builder model of C09 (coq/Model/BuilderEval.v, GoSem*.v); the text level (fmt %#v, cog.Dump, strings.Join, the Go compiler reading the literals back) is modelled as the identity on values and validated only by the two-stage correspondence",
    "the fragment is explicit (Converter.v header): Direct / Builder / Array / Map argument mappings, one builder per object; composable slots, runtime mappings, several builders per object, lists of disjunction options are Unmodelled and skipped",
    "harness harness/verifh_bld, driver drivers/go_bld (stage 1 and the stage-2 program assembled by vlib/gencode_bld.py BldBatch.stage2), cog.Dump copied from /repo/testdata/generated/cog/runtime.go, the scanner that reads the top-level calls of the emitted text (checks/c14.py top_calls)",
    "numbers within 15 significant digits, integers within 2^53; datetimes in UTC; ASCII names",
]
ASSUMPTIONS = [
    "values are those obtained by decoding JSON documents into the generated types; `differs from the builder's defaults` is judged per top-level field of the built object, up to nil == empty collection (list elements in order)",
    "targeted scenarios (vlib/gencode_bld.py scenarios) come with their own documents: for options that also write a constant (add_assignment) only values the builder API can express are sampled; lists of unions exposed as per-branch appending options are outside the Coq model (explicit Unmodelled) and judged on the real output only",
]


# ---------------------------------------------------------------------------------------------- reading the emitted text
def top_calls(code):
    """`pkg.NewXBuilder(...).\\t\\nA(...).\\t\\nB(...)` -> ["A", "B"] (method names of the calls chained on the
    constructor at nesting depth 0); None when the text does not have that shape"""
    i, n = 0, len(code)
    names = []

    def skip_group(i):
        depth = 0
        while i < n:
            c = code[i]
            if c in "([{":
                depth += 1
            elif c in ")]}":
                depth -= 1
                if depth == 0:
                    return i + 1
            elif c == '"':
                i += 1
                while i < n and code[i] != '"':
                    i += 2 if code[i] == "\\" else 1
            elif c == "`":
                i = code.index("`", i + 1)
            elif c == "'":
                i += 1
                while i < n and code[i] != "'":
                    i += 2 if code[i] == "\\" else 1
            i += 1
        return None
    m = re.match(r"\s*[A-Za-z0-9_]+\.New[A-Za-z0-9_]*Builder", code)
    if not m:
        return None
    i = m.end()
    if i >= n or code[i] != "(":
        return None
    i = skip_group(i)
    while i is not None and i < n:
        m = re.match(r"\s*\.\s*([A-Za-z0-9_]+)", code[i:])
        if not m:
            return names if not code[i:].strip() else None
        names.append(m.group(1))
        i += m.end()
        if i >= n or code[i] != "(":
            return None
        i = skip_group(i)
    return names if i is not None else None


# ---------------------------------------------------------------------------------------------- sample values
def variants(rng, doc, schema, defname):
    """documents near `doc` that poke the converter's guards: empty strings, empty arrays / maps, false / zero"""
    out = []
    if not isinstance(doc, dict):
        return out
    t = {d["name"]: d["t"] for d in schema["defs"]}.get(defname)
    fields = {f["name"]: f for f in (t or {}).get("fields", [])}
    for k, v in doc.items():
        f = fields.get(k)
        if f is None:
            continue
        ft = f["t"]
        if isinstance(v, str) and ft["k"] == "string" and not ft.get("minlen"):
            out.append(dict(doc, **{k: ""}))
        elif isinstance(v, list) and v:
            out.append(dict(doc, **{k: []}))
        elif isinstance(v, dict) and v and ft["k"] == "map":
            out.append(dict(doc, **{k: {}}))
        elif isinstance(v, bool) and ft["k"] == "bool":
            out.append(dict(doc, **{k: not v}))
        elif isinstance(v, int) and ft["k"] == "int" and not any(b in ft for b in ("ge", "gt", "le", "lt")):
            out.append(dict(doc, **{k: 0}))
    rng.shuffle(out)
    return out[:3]


def run(ctx, verdict, replay=None, model_ok=True):
    rng = ctx.rng
    thorough = ctx.tier == "thorough"
    batch = gb.BldBatch(ctx, "c14", converters=True, python=False)
    plan = []          # (sid, Src schema or None)
    scen = {}          # sid -> scenario (documents given)
    replay_jobs = []
    if replay:
        rp = json.load(open(replay))
        job = rp.get("job") or rp["first_mismatch"]["job"]
        batch.add({"pkg": job["pkg"], "root": "Root", "defs": []}, job["fmt"], veneers=job["veneers"], text=job["schema_text"],
                  extra_inputs=[tuple(x) for x in job.get("extra_inputs") or []], passes=job.get("passes") or None)
        replay_jobs.append(job)
    else:
        n = 150 if thorough else 90
        k = 0
        for fmt in srcgen.FORMATS:
            for _ in range(n):
                s = srcgen.SrcGen(rng, max_depth=4 if thorough else 3, fmt=fmt).schema("s%03d" % k)
                srcgen._break_required_cycles(s, through_nullable=True)      # see checks/c09.py
                k += 1
                text = c09.add_defaults(rng, srcgen.render(s, fmt), fmt)
                batch.add(s, fmt, veneers=c09.gen_veneers(rng, s) if rng.random() < 0.6 else None, text=text)
                plan.append((s["pkg"], s))
        # targeted shapes (vlib/gencode_bld.py scenarios): their documents are part of the scenario
        for rep in range(3 if thorough else 1):
            for sc in gb.scenarios(rng, prefix="t%d" % rep):
                s = srcgen.project(sc["schema"], sc["fmt"])
                batch.add(s, sc["fmt"], veneers=sc["veneers"], extra_inputs=sc.get("extra_inputs"), passes=sc.get("passes"))
                plan.append((s["pkg"], s))
                scen[s["pkg"]] = sc
    batch.generate()
    batch.build_go_driver()
    gen_hist = {}
    for sid, g in batch.gen.items():
        key = batch.schemas[sid]["fmt"] + ":" + (g["status"] if g["status"] == "OK" else g["status"] + "@" + g.get("stage", ""))
        gen_hist[key] = gen_hist.get(key, 0) + 1
    ctx.log("cog ran on %d schemas: %s; %d Go packages do not compile, %d needed an unused import removed"
            % (len(batch.schemas), gen_hist, len(batch.compile_errors), len(batch.import_fixups)))
    ok = batch.ok_sids()

    # ---- default objects (types) and builder defaults
    irs, djobs = {}, []
    for sid in ok:
        lo = batch.lang(sid, "go")
        irs[sid] = gb.IR(lo)
        for o in lo["objects"]:
            if o.get("ctor"):
                djobs.append({"id": "%s|%s|%s" % (sid, o["pkg"], o["name"]), "op": "default", "t": "%s.%s" % (o["gopkg"], o["go"]), "sid": sid})
    defaults_g, defaults_p = {}, {}
    for j, r in zip(djobs, batch.run_go(djobs)):
        sid, pkg, name = j["id"].split("|")
        if r is None or not r.get("known") or r.get("call") != "ok":
            continue
        defaults_g.setdefault(sid, []).append((pkg, name, gb.dump_to_gallina(r["dump"])))
        defaults_p.setdefault(sid, {})[(pkg, name)] = gb.plain(r["dump"])

    # ---- stage 1: sample values through the converters
    samples = []       # dict(sid, builder JSON, doc text, kind)
    if replay:
        for job in replay_jobs:
            ir = irs.get(job["pkg"])
            b = ir.builder(job["builder"][0], job["builder"][1]) if ir else None
            if b is not None:
                samples.append({"sid": job["pkg"], "builder": b, "doc": job["doc"], "kind": job.get("kind", "replay")})
    else:
        per = 14 if thorough else 7
        for sid, s in plan:
            if sid not in ok:
                continue
            ir = irs[sid]
            dg = srcgen.DocGen(rng, s)
            struct_defs = {d["name"] for d in s["defs"] if d["t"]["k"] == "struct"}
            for b in ir.builders:
                name = b["For"]["Name"]
                if name not in struct_defs or ir.summary.get((b["For"]["SelfRef"]["ReferredPkg"], name), {}).get("kind") != "struct":
                    continue
                n = per if name == s["root"] else max(2, per // 3)
                given = (scen.get(sid) or {}).get("docs", {}).get(name)
                if given:
                    for d in given:
                        samples.append({"sid": sid, "builder": b, "doc": srcgen.dumps(d), "kind": "scenario:" + scen[sid]["shape"]})
                    if scen[sid]["shape"] in ("shared-constant", "multi-builder"):
                        continue      # an option that also writes a constant / builders selected by a constructor constant
                                      # cannot express every value: the documents are chosen
                for _ in range(n):
                    try:
                        d = dg.valid(name)
                    except Exception:
                        break
                    samples.append({"sid": sid, "builder": b, "doc": srcgen.dumps(d), "kind": "valid"})
                    for v in variants(rng, d, s, name)[:1 if not thorough else 3]:
                        samples.append({"sid": sid, "builder": b, "doc": srcgen.dumps(v), "kind": "variant"})
    cjobs = []
    for i, sm in enumerate(samples):
        ir = irs[sm["sid"]]
        b = sm["builder"]
        n = ir.names[(b["For"]["SelfRef"]["ReferredPkg"], b["Name"])]
        summ = ir.summary[(b["For"]["SelfRef"]["ReferredPkg"], b["For"]["Name"])]
        cjobs.append({"id": "c%d" % i, "op": "convert", "t": "%s.%s" % (summ["gopkg"], summ["go"]),
                      "b": "%s.%s" % (n["gopkg"], n["go"]), "docs": [sm["doc"]], "sid": sm["sid"]})
    cres = batch.run_go(cjobs)
    for sm, r in zip(samples, cres):
        sm["conv"] = (r["conv"][0] if r and r.get("known") and r.get("conv") else None)
        sm["died"] = r is None
    live = [i for i, sm in enumerate(samples) if sm["conv"] is not None and sm["conv"]["s"] in ("ok", "panic")]
    ctx.log("stage 1: %d sample values, %d converted (%d converter panics), %d did not decode, %d killed the driver"
            % (len(samples), len(live), len([i for i in live if samples[i]["conv"]["s"] == "panic"]),
               len([sm for sm in samples if sm["conv"] is not None and sm["conv"]["s"] == "decode-err"]),
               len([sm for sm in samples if sm["died"]])))

    # ---- stage 2: compile and run what the converters returned
    okc = [i for i in live if samples[i]["conv"]["s"] == "ok"]
    st2 = batch.stage2([samples[i]["conv"]["code"] for i in okc]) if okc else []
    for i, r in zip(okc, st2):
        samples[i]["stage2"] = r
    hist2 = {}
    for i in okc:
        hist2[samples[i]["stage2"]["s"]] = hist2.get(samples[i]["stage2"]["s"], 0) + 1
    ctx.log("stage 2: %d expressions compiled and run: %s" % (len(okc), hist2))

    # ---- the model, inside Coq
    env_defs, cases = {}, []
    for i in live:
        sm = samples[i]
        key = "%s_go" % sm["sid"]
        if key not in env_defs:
            env_defs[key] = gb.env_def(sm["sid"], "go", batch.lang(sm["sid"], "go"), defaults_g.get(sm["sid"], []))
        ir = irs[sm["sid"]]
        b = sm["builder"]
        n = ir.names[(b["For"]["SelfRef"]["ReferredPkg"], b["Name"])]
        inv = {v: k for k, v in n["go_options"].items()}
        conv = sm["conv"]
        names = top_calls(conv["code"]) if conv["s"] == "ok" else []
        sm["calls"] = names
        s2 = sm.get("stage2") or {}
        built = gb.dump_to_gallina(s2["dump"]) if s2.get("s") == "ok" else "GNil"
        obs = "(mkCObs %s %s %s %s %s)" % (srcgen.g_str(conv["s"]), c09.g_strs([inv.get(x, "?" + x) for x in (names or [])]),
                                          srcgen.g_str(s2.get("s") or ""), c09.g_strs(s2.get("paths") or []), built)
        v = gb.dump_to_gallina(conv["dump"]) if conv.get("dump") else "GNil"
        cases.append((key, "(env_%s, (%s, %s), %s, %s)" % (key, srcgen.g_str(b["For"]["SelfRef"]["ReferredPkg"]),
                                                        srcgen.g_str(b["Name"]), v, obs)))
    ev = gb.eval_cases(ctx, "cases_C14", "Model.BuilderCheck Model.Converter Model.ConverterCheck", env_defs, cases, "ccase",
                       [("UNM", "c14_unmodelled"), ("MM_CALLS", "c14_mm_calls"), ("MM_BUILD", "c14_mm_build")]) if cases else \
        {"UNM": [], "MM_CALLS": [], "MM_BUILD": []}
    ctx.log("coq evaluated %d cases: %s" % (len(cases), " ".join("%s=%d" % (k, len(v)) for k, v in ev.items())))
    mm = sorted({live[x] for x in ev["MM_CALLS"] + ev["MM_BUILD"]})
    unm = {live[x] for x in ev["UNM"]}

    # ---- the property, on the real output
    pf = {}
    budget = [40]

    def payload(i):
        sm = samples[i]
        s = batch.schemas[sm["sid"]]
        b = sm["builder"]
        return {"fmt": s["fmt"], "pkg": sm["sid"], "schema_text": s["text"], "veneers": s["veneers"],
                "extra_inputs": s.get("extra_inputs") or [], "passes": s.get("passes") or [],
                "builder": [b["For"]["SelfRef"]["ReferredPkg"], b["Name"]], "doc": sm["doc"], "kind": sm["kind"]}

    def fail(i, sig, detail):
        pf.setdefault(json.dumps(sig, sort_keys=True), []).append(i)
        if budget[0] > 0:
            sm = samples[i]
            st = verdict.propfail(sig, {"job": payload(i), "detail": detail,
                                        "observed": {"converter_output": sm["conv"].get("code"), "stage2": c09.trim_any(sm.get("stage2"))},
                                        "predicate": "checks/c14.py judge: compiles / builds / equal to the value where it differs from the defaults / needed options once"})
            if st == "violation":
                budget[0] -= 1
    for i in sorted(live, key=lambda i: len(samples[i]["doc"])):
        judge(samples[i], irs[samples[i]["sid"]], defaults_p.get(samples[i]["sid"], {}), lambda sig, d, i=i: fail(i, sig, d))
    for i in [k for k, sm in enumerate(samples) if sm["died"]][:3]:
        verdict.propfail({"law": "valid_go_expression", "cause": "driver-process-died"}, {"job": payload(i), "observed": "driver died"})
    explained = {i for v in pf.values() for i in v}
    unexplained = [{"job": payload(i), "observed": {"converter_output": samples[i]["conv"].get("code"), "calls": samples[i].get("calls"),
                                                    "stage2": c09.trim_any(samples[i].get("stage2"))},
                    "which": [k for k in ("MM_CALLS", "MM_BUILD") if i in {live[x] for x in ev[k]}]} for i in mm if i not in explained][:20]

    # ---- coverage
    distinct, nontriv = set(), 0
    kinds, ncalls = {}, {}
    for i in live:
        sm = samples[i]
        kinds[sm["kind"]] = kinds.get(sm["kind"], 0) + 1
        c = len(sm.get("calls") or [])
        ncalls[min(c, 8)] = ncalls.get(min(c, 8), 0) + 1
        h = core.canon_hash([sm["sid"], sm["builder"]["Name"], sm["doc"]])
        if h in distinct or i in unm:
            continue
        distinct.add(h)
        if c >= 2 and (sm.get("stage2") or {}).get("s") == "ok":
            nontriv += 1
    shown = []
    for i in okc[:3]:
        sm = samples[i]
        shown.append({"format": batch.schemas[sm["sid"]]["fmt"], "builder": sm["builder"]["Name"], "document": sm["doc"],
                      "converter_output": sm["conv"]["code"], "stage2": (sm.get("stage2") or {}).get("s"),
                      "rebuilt_json": (sm.get("stage2") or {}).get("json")})
    cov = {
        "evaluations": len(live),
        "distinct_nontrivial": nontriv,
        "rule": "one evaluation = one value decoded into a generated type, converted by the generated converter (stage 1) and the returned text compiled and executed (stage 2); distinct by hash of (schema, builder, document); non-trivial = the emitted expression has >= 2 option calls and builds; unmodelled cases are not counted",
        "samples": shown,
        "schemas": len(batch.schemas),
        "cog_outcomes_by_format": gen_hist,
        "go_packages_not_compiling": len(batch.compile_errors),
        "go_compile_error_samples": [v.split("\n")[0][:200] for v in list(batch.compile_errors.values())[:3]],
        "sample_kind_histogram": kinds,
        "top_level_calls_histogram": ncalls,
        "stage2_outcome_histogram": hist2,
        "unmodelled_cases": len(unm),
        "mismatches_model_vs_impl": {"calls": len(ev["MM_CALLS"]), "rebuilt_object": len(ev["MM_BUILD"])},
        "propfails_on_impl": {k: len(v) for k, v in pf.items()},
        "cases_validated_against_impl": len(live) - len(unm) - len(mm),
    }
    return {"coverage": cov, "unexplained_mismatches": unexplained,
            "search_note": "generated schemas x veneers x decoded sample values (valid documents and guard-poking variants) through the real converters and a second compilation"}


def diff_leaf(a, b, path=""):
    """first position where two pointer-erased values differ (by gb.same) -> (path, a there, b there)"""
    if isinstance(a, dict) and isinstance(b, dict):
        for k in sorted(set(a) | set(b)):
            if not gb.same(a.get(k), b.get(k)):
                return diff_leaf(a.get(k), b.get(k), (path + "." + k) if path else k)
    if isinstance(a, list) and isinstance(b, list) and len(a) == len(b):
        for i, (x, y) in enumerate(zip(a, b)):
            if not gb.same(x, y):
                return diff_leaf(x, y, "%s[%d]" % (path, i))
    return path, a, b


def classify_loss(v, w):
    """why does the rebuilt field w differ from the value's field v?  by the first differing position"""
    path, a, b = diff_leaf(v, w)
    if isinstance(b, str) and b.startswith("0001-01-01T00:00:00") and isinstance(a, str):
        return "datetime-inside-a-dumped-value-printed-as-zero-time"
    if gb._empty(a) and not gb._empty(b):
        return "absent-in-the-value-but-set-by-constructor-defaults"
    if a == "":
        return "empty-string-skipped"
    if isinstance(a, (list, dict)) and not a:
        return "empty-collection-skipped"
    if gb._empty(b):
        return "value-lost"
    return "value-changed"


def judge(sm, ir, defaults, fail):
    conv, s2 = sm["conv"], sm.get("stage2")
    b = sm["builder"]
    if conv["s"] == "panic":
        fail({"law": "valid_go_expression", "cause": "converter-panics"}, "the generated converter panics on the value")
        return
    if s2 is None:
        return
    if s2["s"] == "compile-error":
        fail({"law": "valid_go_expression", "cause": classify_compile(s2.get("msg", ""), conv.get("code") or "")}, s2.get("msg", ""))
        return
    names = sm.get("calls")
    if names is None:
        fail({"law": "valid_go_expression", "cause": "unexpected-shape"}, "the text is not a chain of calls on a builder constructor")
        return
    v = gb.plain(conv["dump"])
    key = (b["For"]["SelfRef"]["ReferredPkg"], b["For"]["Name"])
    d = defaults.get(key)
    if not isinstance(v, dict) or d is None:
        return
    # builder defaults = type defaults + constructor constants; a value whose constant fields do not hold the
    # constants is not a value of the schema
    d = dict(d)
    valid = conv.get("valid") == "ok"
    for asg in (b.get("Constructor") or {}).get("Assignments") or []:
        if asg["Value"].get("Constant") is not None and len(asg["Path"]) == 1:
            g = asg["Path"][0]["Identifier"]
            d[g] = asg["Value"]["Constant"]
            if v.get(g) is not None and not gb.same(v.get(g), d[g]):
                valid = False
    n = ir.names[(b["For"]["SelfRef"]["ReferredPkg"], b["Name"])]
    inv = {vv: kk for kk, vv in n["go_options"].items()}
    called = [inv.get(x) for x in names]
    if s2["s"] in ("err", "panic"):
        if valid:
            heads = sorted({re.sub(r"\[.*", "", p).split(".")[0] for p in s2.get("paths") or []})
            cause = "rebuilt-object-panics" if s2["s"] == "panic" else "rebuilt-object-fails-validation"
            skip = False
            for g in heads:
                mine = options_for(b, g)
                if not mine:
                    skip = True       # a constrained field no option assigns (omitted by a veneer): not expressible at all
                elif g in v and gb._empty(v[g]) and not gb._empty(d.get(g)):
                    cause = "absent-in-the-value-but-set-by-constructor-defaults"
                elif not any(o["Name"] in called for o in mine) and any(len(a["Path"]) >= 2 for o in mine for a in o.get("Assignments") or []):
                    cause = "flattened-object-option-skipped"
            if skip:
                return
            if s2.get("errors"):
                cause = "emitted-nested-builder-fails-and-its-error-is-dropped"
            fail({"law": "convert_then_build", "cause": cause},
                 "Build() of the emitted expression: %s %r although the value validates" % (s2["s"], s2.get("paths")))
        return
    w = gb.plain(s2["dump"])
    if not isinstance(w, dict):
        return
    for g in v:
        if gb.same(w.get(g), v[g]) or gb.same(v[g], d.get(g)) or not valid:
            continue
        cause = classify_loss(v[g], w.get(g))
        mine = options_for(b, g)
        if not mine:
            continue          # a field no option of this builder assigns (omitted by a veneer): not expressible at all
        path = diff_leaf(v[g], w.get(g))[0]
        ftype = field_type(b, g)
        if s2.get("errors"):
            # a nested builder of the emitted expression failed and the error was dropped (C09's finding): the
            # option that received it was silently skipped
            cause = "emitted-nested-builder-fails-and-its-error-is-dropped"
        elif path and inside_builder_argument(ir, g, path, [o for o in mine if o["Name"] in called]):
            continue          # the difference sits inside a nested object that has its own builder and converter:
                              # judged on that builder's own sample values
        if cause in ("value-lost", "value-changed") and not any(o["Name"] in called for o in mine) \
                and any(len(a["Path"]) >= 2 for o in mine for a in o.get("Assignments") or []):
            cause = "flattened-object-option-skipped"
        fail({"law": "convert_then_build", "cause": cause},
             "field %s: value %s, rebuilt %s, default %s" % (g, c09.srcgen_repr(v[g]), c09.srcgen_repr(w.get(g)), c09.srcgen_repr(d.get(g))))
        break
    # direct options at most once
    for o in b.get("Options") or []:
        direct = all(a["Method"] == "direct" for a in o.get("Assignments") or [])
        if direct and called.count(o["Name"]) > 1:
            fail({"law": "each_needed_option_once", "cause": "direct-option-emitted-twice"}, "option %s appears %d times" % (o["Name"], called.count(o["Name"])))
            break


def inside_builder_argument(ir, g, path, emitted):
    """does the differing position (field g, then `path` inside it) lie inside a value that an emitted option
    received as a nested BUILDER (argument type with a builder)?  such a difference is the nested builder's own"""
    full = g + ("." + path if not path.startswith("[") else path)
    for o in emitted:
        for a in o.get("Assignments") or []:
            t = (a["Value"].get("Argument") or {}).get("Type")
            if t is None or not ir.has_builder(t) or several_builders(ir, t):
                continue      # which of several builders converts a value is decided by THIS converter
            prefix = ".".join(it["Identifier"] for it in a["Path"] if it.get("Identifier"))
            if full == prefix or full.startswith(prefix + ".") or full.startswith(prefix + "["):
                return True
    return False


def several_builders(ir, t):
    k = t["Kind"]
    if k == "array":
        return several_builders(ir, t["Array"]["ValueType"])
    if k == "map":
        return several_builders(ir, t["Map"]["ValueType"])
    return k == "ref" and len(ir.builders_for_ref(t)) > 1


def options_for(b, g):
    return [o for o in b.get("Options") or [] if any(a["Path"][0]["Identifier"] == g for a in o.get("Assignments") or [])]


def field_type(b, g):
    t = b["For"]["Type"]
    for f in ((t.get("Struct") or {}).get("Fields") or []):
        if f["Name"] == g:
            return f["Type"]
    return None


def classify_compile(msg, code=""):
    if "<invalid>" in code:
        return "dump-prints-invalid-for-nil-inside-any"
    if "not enough arguments" in msg or "too many arguments" in msg:
        return "wrong-number-of-arguments"
    if "time.Location" in msg or "cannot convert" in msg:
        return "time-location-literal"
    if "undefined" in msg:
        return "undefined-identifier"
    if "cannot use" in msg:
        return "argument-type"
    if "syntax error" in msg or "expected" in msg:
        return "syntax"
    return "other"
