"""C05 — every reference in the intermediate representation resolves.

Theorems: coq/Props/C05.v.  Tie to the code: correspondence through the real passes / language
chains / front-ends (harness/verifh); `dangling`/`resolves`/`closure` (coq/Model/Refs.v) are
evaluated inside Coq on the IR the implementation produced."""
import glob
import json
import os
import re

from gen import irgen
from vlib import core, passlib

COQ_TARGETS = ["Props/C05.vo", "Model/Spec05.vo", "Model/SpecChain.vo", "Gen/Chains_gen.vo"]
PROPS = "Props/C05.v"
TRUSTED = [
    "reference sites enumerated by coq/Model/Refs.v (refs, constant refs, map index types, enum member types, struct-hint disjunctions, discriminator mapping targets, entry points)",
    "hand-written pass models (coq/Model/Passes.v, Filter.v) validated on generated cases; front-ends are exercised on cog's own testdata schemas and rendered construct-grammar schemas, not modelled",
    "harness printer harness/verifh/ir.go",
]
ASSUMPTIONS = ["references into packages that were not loaded are outside the claim", "identifiers are ASCII"]

NAME_CHANGING = ["rename_object", "prefix_object_names", "duplicate_object", "unspec", "replace_reference"]
LANGS = ["go", "java", "php", "python", "typescript", "jsonschema", "openapi"]


def gen_resolving(rng, depth):
    g = irgen.IRGen(rng, max_depth=depth, features={"resolving": True, "twins": 0.35})
    return g, g.schemas()


def exact_obj(rng, schemas):
    objs = irgen.all_objects(schemas)
    p, n, _ = rng.choice(objs)
    return p, n


def gen_name_changing(rng, depth, maxp):
    g, schemas = gen_resolving(rng, depth)
    passes = []
    for _ in range(rng.randint(1, maxp)):
        k = rng.choice(NAME_CHANGING)
        if k == "replace_reference" and passes:
            # "towards an existing object": the target must still exist when the pass runs
            k = "rename_object"
        p = irgen.gen_pass(rng, schemas, k, g)
        if k == "replace_reference":           # only towards an existing object
            tp, to = exact_obj(rng, schemas)
            p["topkg"], p["to"] = tp, to
        if k == "rename_object":
            p["to"] = rng.choice(["Renamed", "NewName", "Zed"])
        if k == "duplicate_object":
            p["topkg"] = rng.choice([s["pkg"] for s in schemas])
        passes.append(p)
    return {"schemas": schemas, "passes": passes, "stream": "name_changing"}


def gen_filter(rng, depth):
    g, schemas = gen_resolving(rng, depth)
    pkg = rng.choice(schemas)
    names = [o["name"] for o in pkg["objects"]]
    refs = [[pkg["pkg"], n] for n in rng.sample(names, rng.randint(1, min(3, len(names))))]
    if rng.random() < 0.2:
        refs.append([pkg["pkg"], "Absent"])
    return {"schemas": schemas, "passes": [{"p": "filter_schemas", "refs": refs}], "stream": "filter"}


def gen_chain(rng, depth, lang):
    g, schemas = gen_resolving(rng, depth)
    return {"schemas": schemas, "passes": [], "lang": lang, "stream": "chain_" + lang}


def site_kind(outcome, pkg, name):
    if pkg == "<mapping>":
        return "mapping-target"
    if re.search(r'TConstRef (A0|\{\|[^|]*\|\}) "%s" "%s"' % (re.escape(pkg), re.escape(name)), outcome):
        return "constant-ref"
    if re.search(r'TRef (A0|\{\|[^|]*\|\}) "%s" "%s"' % (re.escape(pkg), re.escape(name)), outcome):
        return "ref"
    return "entry-point"


def dangling_of(ctx, tag, outcome_term):
    """evaluate `dangling` on an outcome `(Ok schemas)`; returns list of (pkg, name)"""
    path = os.path.join(ctx.scratch, "dangling_%s.v" % tag)
    with open(path, "w") as f:
        f.write(passlib.PREAMBLE % "Model.Spec05")
        f.write("Definition D := Eval vm_compute in (match %s with Ok out => dangling out | _ => [] end).\nPrint D.\n" % outcome_term)
    rc, out = core.coqc_file(path)
    flat = re.sub(r"\s+", " ", out)
    return re.findall(r'\("([^"]*)", "([^"]*)"\)', flat.split(" : list", 1)[0])


def regen(ctx):
    """Props/C05.v states theorems about the regenerated language chains (Gen/Chains_gen.v)"""
    from checks import c06
    c06.regen(ctx)


CUE_ENVELOPE_DOCS = [
    'name: string\ncount?: int64\n',
    '#Target: {expr: string, hide?: bool}\n#Query: {targets: [...#Target]}\n',
    '#Target: {expr: string}\nquery: #Target\nlimit: int64 | *10\n',
    '#A: {b?: #B}\n#B: {a?: #A, kind: "x" | "y"}\n',
    '',
]


def run(ctx, verdict, replay=None, model_ok=True):
    rng = ctx.rng
    thorough = ctx.tier == "thorough"
    depth = 5 if thorough else 4
    jobs = []
    parse_jobs = []
    if replay:
        rp = json.load(open(replay))
        j = rp.get("job") or rp["first_mismatch"]["job"]
        (parse_jobs if "format" in j else jobs).append(j)
    else:
        cdir = os.path.join(core.VERIF, "corpus", "C05")
        if os.path.isdir(cdir):
            for f in sorted(os.listdir(cdir)):
                jobs.append(json.load(open(os.path.join(cdir, f)))["job"])
        n = 6000 if thorough else 300
        for _ in range(n):
            jobs.append(gen_name_changing(rng, depth, 5 if thorough else 3))
        for _ in range(n // 2):
            jobs.append(gen_filter(rng, depth))
        for lang in LANGS:
            for _ in range(n // 10):
                jobs.append(gen_chain(rng, depth, lang))
        for fmt, pat in (("jsonschema", "testdata/jsonschema/*/schema.json"), ("openapi", "testdata/openapi/*/schema.json"),
                         ("cue", "testdata/simplecue/*/schema.cue")):
            for p in sorted(glob.glob(os.path.join(core.REPO, pat))):
                parse_jobs.append({"format": fmt, "path": p, "pkg": os.path.basename(os.path.dirname(p)).replace("-", "_")})
        # CUE with a forced envelope (config `forced_envelope`): the entry point must name an object that exists,
        # whatever the root value holds (regular fields, only definitions, both, nothing)
        for k, text in enumerate(CUE_ENVELOPE_DOCS):
            for env in ("Dataquery", "spec"):
                parse_jobs.append({"format": "cue", "text": text, "pkg": "envtest%d" % k, "envelope": env})
            parse_jobs.append({"format": "cue", "text": text, "pkg": "envtest%d" % k})
        try:
            from gen import srcgen_bridge   # rendered construct-grammar schemas (optional module)
            parse_jobs += srcgen_bridge.parse_jobs(rng, 40 if not thorough else 600)
        except ImportError:
            pass
    binp = core.build_harness(ctx)
    results = passlib.run_jobs(binp, [{k: v for k, v in j.items() if k != "stream"} for j in jobs])
    ctx.log("implementation ran: %d pass cases" % len(results))
    ev = passlib.eval_cases(ctx, "cases_C05", results,
                            [("MM", "case_mismatch"), ("ND", "case_new_dangling"), ("FI", "case_filter_inexact"),
                             ("IR", "case_input_resolves"), ("UM", "case_unmodelled"),
                             ("AL", "fun c => andb (case_mismatch c) (case_alias c)")], imports="Model.Spec05 Model.SpecChain")
    ctx.log("coq evaluated: mismatch=%d new_dangling=%d filter_inexact=%d (inputs resolving: %d)" %
            (len(ev["MM"]), len(ev["ND"]), len(ev["FI"]), len(ev["IR"])))

    explained = set()

    def culprit(i):
        job = jobs[i]
        if job.get("lang"):
            return "chain:" + job["lang"], job, results[i]
        for k in range(len(job["passes"])):
            sub = dict(job, passes=job["passes"][:k + 1])
            r = passlib.run_jobs(binp, [{kk: v for kk, v in sub.items() if kk != "stream"}])
            if r[0]["status"] != "OK":
                return job["passes"][k]["p"], sub, r[0]
            e = passlib.eval_cases(ctx, "pre_%d_%d" % (i, k), r, [("X", "case_new_dangling")], imports="Model.Spec05")
            if e["X"]:
                return job["passes"][k]["p"], sub, r[0]
        return job["passes"][-1]["p"], job, results[i]

    # allowed_objects is judged on exactness only: a selection may legitimately leave out the entry point
    ev["ND"] = [i for i in ev["ND"] if jobs[i].get("stream") != "filter"]
    budget = 40
    for i in sorted(ev["ND"], key=lambda i: len(json.dumps(jobs[i]))):
        if budget == 0:
            break
        budget -= 1
        pname, sub, r = culprit(i)
        dang = dangling_of(ctx, str(i), r.get("outcome", "(Err \"\")"))
        kinds = sorted({site_kind(r.get("outcome", ""), p, n) for p, n in dang}) or ["unknown"]
        for kind in kinds:
            verdict.propfail({"what": "new-dangling", "pass": pname, "site": kind},
                             {"job": sub, "dangling_after": dang, "observed_outcome": r.get("outcome", "")[:4000],
                              "predicate": "resolves input = true -> resolves output = true (Model/Refs.v)"})
        explained.add(i)
    explained.update(ev["ND"])
    budget = 20
    for i in sorted(ev["FI"], key=lambda i: len(json.dumps(jobs[i]))):
        if budget == 0:
            break
        budget -= 1
        verdict.propfail({"what": "filter-inexact", "pass": "filter_schemas", "site": "closure"},
                         {"job": jobs[i], "observed_outcome": results[i].get("outcome", "")[:4000],
                          "predicate": "output = filter_expected input allowed (closure over ALL reference sites, Model/Refs.v)"})
        explained.add(i)
    explained.update(ev["FI"])
    crashed = [i for i, r in enumerate(results) if r["status"] != "OK"]   # crashes are C04's subject
    # a model mismatch is reported whatever else the case shows, unless the sequence is one in which Go's pointer
    # sharing between passes is observable (Model/SpecChain.v): the functional model does not decide those
    unexplained = [{"job": jobs[i], "observed": results[i]["outcome"][:3000]} for i in ev["MM"] if i not in set(ev["AL"])]

    # front-ends
    plines = core.run_harness_robust(binp, "parse", [json.dumps(j) for j in parse_jobs]) if parse_jobs else []
    pres = []
    for ln in plines:
        if ln is None:
            pres.append(("FATAL", ""))
        else:
            st, _, rest = ln.partition("\t")
            pres.append((st, rest))
    okp = [i for i, (st, _) in enumerate(pres) if st == "OK"]
    pd = []
    if okp:
        cases = "[" + ";\n".join(pres[i][1] for i in okp) + "]"
        pre = passlib.PREAMBLE % "Model.Spec05" + "Definition cases : list parsecase :=\n%s.\n" % cases
        r = core.coq_eval_lists(ctx, "parse_C05", pre, [("PD", "indices parse_dangling cases")])
        pd = [okp[x] for x in r["PD"]]
    for i in pd:
        dang = dangling_of(ctx, "p%d" % i, "(Ok (snd %s))" % pres[i][1])
        kinds = sorted({site_kind(pres[i][1], p, n) for p, n in dang}) or ["unknown"]
        for kind in kinds:
            verdict.propfail({"what": "parse-dangling", "pass": "parse:" + parse_jobs[i]["format"], "site": kind},
                             {"job": parse_jobs[i], "dangling_after": dang, "observed_outcome": pres[i][1][:4000],
                              "predicate": "resolves (parsed schema) = true"})
    for i, (st, rest) in enumerate(pres):
        if st in ("PANIC", "FATAL"):
            verdict.propfail({"what": "parse-crash", "pass": "parse:" + parse_jobs[i]["format"], "site": st},
                             {"job": parse_jobs[i], "observed_outcome": rest[:500]})
    ctx.log("front-ends: %d schemas parsed (%d ok), dangling in %d" % (len(pres), len(okp), len(pd)))

    streams = {}
    distinct = set()
    nontriv = 0
    for i, (j, r) in enumerate(zip(jobs, results)):
        streams[j.get("stream", "corpus")] = streams.get(j.get("stream", "corpus"), 0) + 1
        h = core.canon_hash(j)
        if h in distinct or r["status"] != "OK":
            continue
        distinct.add(h)
        if i in set(ev["IR"]) and r["outcome"] != "(Ok %s)" % r["input"] and sum(len(s["objects"]) for s in j["schemas"]) >= 3:
            nontriv += 1
    cov = {
        "evaluations": len(jobs) + len(parse_jobs),
        "distinct_nontrivial": nontriv,
        "rule": "generated IRs whose references all resolve (or point into packages that are not loaded) x {1-%d name-changing transformations | allowed_objects selections | each of the 7 built-in language chains} + front-ends on cog's testdata schemas; distinct by hash; non-trivial = input resolves, >=3 objects, and the run changed the IR" % (5 if thorough else 3),
        "samples": [{"stream": jobs[i].get("stream"), "passes": jobs[i]["passes"], "lang": jobs[i].get("lang"),
                     "objects": [o["name"] for s in jobs[i]["schemas"] for o in s["objects"]]} for i in range(min(3, len(jobs)))],
        "stream_histogram": streams,
        "inputs_resolving": len(ev["IR"]),
        "parsed_schemas": {"total": len(pres), "ok": len(okp), "dangling": len(pd)},
        "cases_with_unmodelled_pass": len(ev["UM"]),
        "mismatches_model_vs_impl": len(ev["MM"]),
        "mismatches_on_pointer_sharing_sensitive_sequences_not_judged": len(ev["AL"]),
        "new_dangling_cases": len(ev["ND"]),
        "runs_that_crashed_the_implementation_not_judged_here": len(crashed),
        "filter_inexact_cases": len(ev["FI"]),
        "traces_validated_against_impl": len([r for r in results if r["status"] == "OK"]) - len(ev["MM"]) - len(ev["UM"]),
    }
    return {"coverage": cov, "unexplained_mismatches": unexplained,
            "search_note": "generated resolving IRs through name-changing transformations, allowed_objects, language chains; front-ends on testdata"}
