"""C10 — default constructors yield the schema's defaults and constants, in Go and in Python.

Theorems: coq/Props/C10.v over coq/Model/Ctor.v (Go: generateConstructor / defaultsForStruct / formatScalar,
including whether the printed literal type-checks), coq/Model/PySem.v (Python: generateInitMethod /
defaultValueForType / formatValue and the generated encoder) and the front-end model `fe_default`
(what each front-end stores in Type.Default, with its dynamic Go type).
Tie to the code: correspondence.  Schemas declaring defaults of every value type (gen/ctorgen.py) are rendered
as JSON Schema, OpenAPI 3.0 and CUE; ONE real cog pipeline (overlay-built from the working tree) generates Go
and Python for each; a compiled Go driver prints json.Marshal(NewX()) and a Python driver prints
json.dumps(X(), cls=<generated JSONEncoder>) for every object.  "A default the source schema itself accepts"
is decided by the schema language's reference validator (python jsonschema / kin-openapi / CUE) on an
auxiliary schema holding each field's type, never by the model.
  PROPFAIL (real outputs only): an accepted default or a constant is not held by the Go or the Python
           constructor's JSON; the generated Go package does not compile; the Python module does not import.
  MISMATCH: the model's prediction of compile status / constructor JSON (Go, Python) differs from the
           observation; the front-end model differs from the default found in the pre-chain IR."""
import json
import os
import re

from gen import srcgen, ctorgen
from vlib import core, gencode, gencode_py

COQ_TARGETS = ["Props/C10.vo", "Model/CtorChecks.vo"]
PROPS = "Props/C10.v"
TRUSTED = [
    "hand-written Gallina model of the Go constructors (coq/Model/Ctor.v: formatScalar literals and the fragment of Go assignability they meet) and of the Python constructors and encoder (coq/Model/PySem.v), validated only on generated cases",
    "json.Marshal of constructor values through coq/Model/GoSemDecode.v `encode` (omitempty, custom marshalers of disjunction structs)",
    "reference validators decide whether the source schema accepts a default: python jsonschema Draft7, kin-openapi VisitJSON, CUE Unify+Validate(Concrete), asked on an auxiliary schema with one definition per field type (gen/ctorgen.py aux_schema)",
    "front-ends: modelled only as `fe_default` (dynamic Go type of the stored default per format and kind), compared with the pre-chain IR printed by the harness",
    "numbers within 15 significant digits (float32: 6), ASCII-printable strings without control characters, integers within int64",
    "harness/verifh_gen (IR printer with dynamic Go types), drivers/go/main.go (op ctor), drivers/python/driver.py, gen/ctorgen.py renderers",
]
ASSUMPTIONS = ["defaults are declared where the schema language gives the keyword a meaning (never next to a $ref)",
               "strings contain no tab / newline (the harness prints Gallina terms on tab-separated lines)"]

def regen(ctx):
    """Props/C10.v runs witnesses through the per-language pass chains: keep coq/Gen/Chains_gen.v in step with the
    jennies' CompilerPasses() (the translator of checks/c06.py)."""
    from checks import c06
    c06.regen(ctx)


EVAL_DEFS = [("GO_UNM", "go_unmodelled"), ("PY_UNM", "py_unmodelled"), ("MM_GO", "mm_go"), ("MM_PY", "mm_py"),
             ("MM_FE", "mm_fe"), ("PF_GO", "pf_go"), ("PF_PY", "pf_py"), ("PF_AGREE", "pf_agree"), ("PF_AGAIN", "pf_py_again"), ("HAS", "has_decl")]
LOST_DEFS = [("FE", "lost_in_frontend"), ("GOCHAIN", "lost_in_go_chain"), ("PYCHAIN", "lost_in_py_chain"),
             ("GOHAS", "go_post_has"), ("PYHAS", "py_post_has")]


# ---------------------------------------------------------------------- schema <-> JSON (replays, corpus)
def schema_to_json(x):
    if isinstance(x, srcgen.Decimal):
        return {"$dec": format(x, "f")}
    if isinstance(x, dict):
        return {k: schema_to_json(v) for k, v in x.items()}
    if isinstance(x, list):
        return [schema_to_json(v) for v in x]
    return x


def schema_from_json(x):
    if isinstance(x, dict):
        if set(x) == {"$dec"}:
            return srcgen.Decimal(x["$dec"])
        return {k: schema_from_json(v) for k, v in x.items()}
    if isinstance(x, list):
        return [schema_from_json(v) for v in x]
    return x


# ---------------------------------------------------------------------- the property on real outputs (python side)
def jincl(exp, v):
    if isinstance(exp, dict) and isinstance(v, dict):
        return all(k in v and jincl(x, v[k]) for k, x in exp.items())
    return srcgen.json_same(exp, v)


def holds(obs, d):
    if not isinstance(obs, dict) or d["field"] not in obs:
        return False
    v = obs[d["field"]]
    return jincl(d["value"], v) if d["kind"] == "struct" else srcgen.json_same(d["value"], v)


def _num(x):
    return isinstance(x, (int, srcgen.Decimal)) and not isinstance(x, bool)


def observed_class(obs, d, enum_vals=None):
    """how the observed field value relates to the declared one (classification only; never decides anything)"""
    if not isinstance(obs, dict):
        return "no-constructor-output"
    if d["field"] not in obs or obs[d["field"]] is None:
        return "absent-or-null"
    v, e = obs[d["field"]], d["value"]
    if isinstance(v, str) and _num(e):
        try:
            if srcgen.Decimal(v) == srcgen.Decimal(e):
                return "number-as-string"
        except Exception:
            pass
    if isinstance(v, list) and isinstance(e, list) and len(v) == len(e) and v and all(isinstance(x, str) for x in v) \
            and all(_num(x) for x in e):
        return "numbers-as-strings"
    if v in ("", 0, False, [], {}) and not isinstance(e, dict):
        return "zero-value"
    if isinstance(e, dict) and isinstance(v, dict):
        bad = [k for k, x in e.items() if k not in v or not jincl(x, v[k])]
        return "override-not-held"
    if enum_vals and v in enum_vals:
        return "another-enum-member"
    return "altered"


def go_compile_cause(err):
    causes = set()
    for ln in err.split("\n"):
        if re.search(r'cannot use "[-+0-9.eE]+" \(untyped string constant\) as (u?int\d*|float\d+) value', ln):
            causes.add("number-default-printed-as-quoted-string")
        elif re.search(r"cannot use \[\]string\{…\} \(value of type \[\]string\) as \[\]", ln):
            causes.add("list-default-printed-as-[]string")
        elif re.search(r"cannot use -?[0-9.eE+]+ \(untyped (int|float) constant\) as string value in array or slice literal", ln):
            causes.add("list-default-printed-as-[]string")
        elif re.search(r'cannot use "[-+0-9.eE]+" \(untyped string constant\) as (u?int\d*|float\d+) value in argument', ln):
            causes.add("number-default-printed-as-quoted-string")
        elif "map[string]interface" in ln:
            causes.add("map-default-printed-as-map[string]interface{}")
        elif "unsupported default value case" in ln or "untyped string constant" in ln:
            causes.add("string-literal-assigned-to-non-string")
        elif "undefined: unknown" in ln:
            causes.add("pointer-helper-over-placeholder-type-unknown")
        elif "imported and not used" in ln:
            causes.add("unused-import")
        elif ln.strip() and not ln.startswith("#"):
            causes.add("other")
    if len(causes) > 1:
        causes.discard("other")
    return "+".join(sorted(causes)) or "other"


# ---------------------------------------------------------------------- one run
def new_schemas(ctx, thorough):
    per_fmt = 1500 if thorough else 330
    out = []
    k = 0
    for fmt in srcgen.FORMATS:
        for i in range(per_fmt):
            out.append(ctorgen.CtorGen(ctx.rng, fmt, clean=(i % 2 == 1)).schema("s%03d" % k))
            k += 1
    return out


def run(ctx, verdict, replay=None, model_ok=True):
    thorough = ctx.tier == "thorough"
    batch = gencode_py.PyBatch(ctx, "c10")
    schemas = []
    if replay:
        rp = json.load(open(replay))
        job = rp.get("job") or rp["first_mismatch"]["job"]
        schemas.append(schema_from_json(job["schema"]))
    else:
        cdir = os.path.join(core.VERIF, "corpus", "C10")
        if os.path.isdir(cdir):
            for i, f in enumerate(sorted(os.listdir(cdir))):
                s = schema_from_json(json.load(open(os.path.join(cdir, f)))["job"]["schema"])
                s["pkg"] = "k%03d" % i
                schemas.append(s)
        schemas += new_schemas(ctx, thorough)
    texts = {}
    for s in schemas:
        texts[s["pkg"]] = ctorgen.render(s, s["fmt"])
        batch.add(s, s["fmt"], text=texts[s["pkg"]])
    by_sid = {s["pkg"]: s for s in schemas}
    batch.generate()
    batch.build_driver()
    n_ok = len([g for g in batch.gen.values() if g.status == "OK"])
    ctx.log("cog ran on %d schemas: %d generated (Go+Python), %d rejected, %d Go packages do not compile"
            % (len(schemas), n_ok, len(schemas) - n_ok, len(batch.compile_errors)))

    def payload(sid, extra=None):
        s = by_sid[sid]
        p = {"job": {"fmt": s["fmt"], "pkg": sid, "schema": schema_to_json(s), "schema_text": texts[sid]}}
        p.update(extra or {})
        return p

    # ---- objects and their declared defaults
    objs = []          # dict(sid, key, gname, pname, decls)
    for sid, s in by_sid.items():
        g = batch.gen[sid]
        if g.status != "OK":
            continue
        pg = batch.pygen.get(sid)
        for key, decls in ctorgen.all_declared(s).items():
            gname = ctorgen.object_name(s, key, g.objects)
            pname = ctorgen.object_name(s, key, pg.objects) if pg and pg.status == "OK" else None
            if gname is None and pname is None:
                continue
            objs.append({"sid": sid, "key": key, "gname": gname, "pname": pname, "decls": [dict(d) for d in decls]})
    # ---- run the constructors
    gjobs, gidx = [], []
    for i, o in enumerate(objs):
        if o["sid"] in batch.ok_sids() and o["gname"] and \
                any(x["name"] == o["gname"] and x["kind"] == "struct" for x in batch.gen[o["sid"]].objects):
            gjobs.append({"id": "g%d" % i, "sid": o["sid"], "type": o["gname"], "docs": [], "ops": ["ctor"]})
            gidx.append(i)
    gres = batch.run(gjobs)
    for i, r in zip(gidx, gres):
        objs[i]["go"] = r
    pjobs, pidx = [], []
    for i, o in enumerate(objs):
        if o["pname"]:
            pjobs.append({"id": "p%d" % i, "sid": o["sid"], "type": o["pname"], "docs": [], "ops": ["ctor", "ctor2"]})
            pidx.append(i)
    pres = batch.run_py(pjobs)
    for i, r in zip(pidx, pres):
        objs[i]["py"] = r
    ctx.log("constructors run: %d Go, %d Python (of %d objects)" % (len(gjobs), len(pjobs), len(objs)))

    # ---- which defaults does the source schema itself accept?
    auxdir = os.path.join(batch.root, "aux")
    os.makedirs(auxdir, exist_ok=True)
    items, owners = [], []
    for sid, s in by_sid.items():
        if batch.gen[sid].status != "OK":
            continue
        text, names = ctorgen.aux_schema(s, s["fmt"])
        d = os.path.join(auxdir, sid)
        os.makedirs(d, exist_ok=True)
        path = os.path.join(d, {"cue": sid + ".cue", "jsonschema": "schema.json", "openapi": "openapi.json"}[s["fmt"]])
        with open(path, "w") as f:
            f.write(text)
        for oi, o in enumerate(objs):
            if o["sid"] != sid:
                continue
            for di, dcl in enumerate(o["decls"]):
                if dcl["kind"] in ("const", "constenum"):
                    dcl["accepted"] = True
                    continue
                for an, doc in ctorgen.leaves(s, o["key"], dcl, names):
                    items.append({"fmt": s["fmt"], "path": path, "type": an, "docs": [doc]})
                    owners.append((oi, di))
    ver = gencode.ref_validate(ctx, items)
    n_leaf = n_acc = n_noval = 0
    for (oi, di), v in zip(owners, ver):
        dcl = objs[oi]["decls"][di]
        n_leaf += 1
        if v is None:
            n_noval += 1
            dcl["accepted"] = False
        else:
            ok = v[:1] == "1"
            n_acc += ok
            dcl["accepted"] = dcl.get("accepted", True) and ok
    for o in objs:
        for dcl in o["decls"]:
            dcl.setdefault("accepted", False)
    ctx.log("reference validators: %d of %d default values accepted (%d could not be validated)" % (n_acc, n_leaf, n_noval))

    # ---- Coq: model vs observation, property on the observation
    def opt(x):
        return "None" if x is None else "(Some %s)" % srcgen.doc_to_gallina(x)

    cases = []
    for o in objs:
        sid = o["sid"]
        s = by_sid[sid]
        g, p = o.get("go"), o.get("py")
        go_compiles = sid in batch.ok_sids()
        go_obs = g["ctor"] if g and g.get("ctors") == "ok" else None
        py_import = bool(p and p.get("import") == "ok" and p.get("known"))
        py_obs = p["ctor"] if p and p.get("ctors") == "ok" else None
        py_again = p["ctor2"] if p and p.get("ctor2s") == "ok" else None
        o["go_obs"], o["py_obs"], o["go_compiles"], o["py_import"], o["py_again"] = go_obs, py_obs, go_compiles, py_import, py_again
        decls = gencode.g_list('(mkDecl %s %s %s %s)' % (srcgen.g_str(d["field"]), srcgen.g_str(d["kind"]),
                                                         srcgen.doc_to_gallina(d["value"]), "true" if d["accepted"] else "false")
                               for d in o["decls"])
        term = "(ctx_%s, %s, pre_%s, %s, %s, %s, %s, %s, (mkCObs %s %s %s %s %s), %s)" % (
            sid, "pctx_%s" % sid if o["pname"] else "[]", sid, srcgen.g_str(s["fmt"]), srcgen.g_str(sid),
            srcgen.g_str(o["gname"] or ""), srcgen.g_str(o["pname"] or ""), gencode.g_list(srcgen.g_str(x) for x in o["key"].split(".")),
            "true" if go_compiles else "false", opt(go_obs), "true" if py_import else "false", opt(py_obs), opt(py_again), decls)
        cases.append((sid, term))
    ev = eval_cases(ctx, batch, "cases_C10", cases, "ccase", EVAL_DEFS)
    ctx.log("coq evaluated %d objects: " % len(cases) + " ".join("%s=%d" % (k, len(v)) for k, v in ev.items()))

    # ---- PROPFAIL: details and classification in python, cross-checked with the Coq verdicts
    enum_vals = {}
    for sid, s in by_sid.items():
        for key, t in ctorgen.struct_nodes(s).items():
            for f in t["fields"]:
                ft = f["t"]
                if ft["k"] == "ref":
                    ft = [d["t"] for d in s["defs"] if d["name"] == ft["name"]][0]
                if ft["k"] == "enum":
                    enum_vals[(sid, key, f["name"])] = ft["vals"]
    fails = []         # (object index, decl, lang, class)
    py_pf = {"go": set(), "py": set(), "agree": set()}
    for i, o in enumerate(objs):
        for d in o["decls"]:
            if not (d["accepted"] or d["kind"] in ("const", "constenum")):
                continue
            ev_vals = enum_vals.get((o["sid"], o["key"], d["field"]))
            if not holds(o["go_obs"], d):
                py_pf["go"].add(i)
                fails.append((i, d, "go", observed_class(o["go_obs"], d, ev_vals) if o["go_compiles"] else "package-does-not-compile"))
            if not holds(o["py_obs"], d):
                py_pf["py"].add(i)
                fails.append((i, d, "python", observed_class(o["py_obs"], d, ev_vals) if o["py_import"] else "module-not-importable"))
            a = o["go_obs"].get(d["field"]) if isinstance(o["go_obs"], dict) and d["field"] in o["go_obs"] else KeyError
            b = o["py_obs"].get(d["field"]) if isinstance(o["py_obs"], dict) and d["field"] in o["py_obs"] else KeyError
            if a is KeyError or b is KeyError or not srcgen.json_same(a, b):
                py_pf["agree"].add(i)
    evaluator_disagreements = []
    for key, name in (("go", "PF_GO"), ("py", "PF_PY"), ("agree", "PF_AGREE")):
        if py_pf[key] != set(ev[name]):
            evaluator_disagreements.append({"predicate": name, "python_only": sorted(py_pf[key] - set(ev[name]))[:5],
                                            "coq_only": sorted(set(ev[name]) - py_pf[key])[:5]})
    # where was each failing default lost?
    lcases = []
    for (i, d, lang, cls) in fails:
        o = objs[i]
        sid = o["sid"]
        lcases.append((sid, "(ctx_%s, %s, pre_%s, %s, %s, %s, %s, %s)" % (
            sid, "pctx_%s" % sid if o["pname"] else "[]", sid, srcgen.g_str(sid), srcgen.g_str(o["gname"] or ""),
            srcgen.g_str(o["pname"] or ""), gencode.g_list(srcgen.g_str(x_) for x_ in o["key"].split(".")), srcgen.g_str(d["field"]))))
    lost = eval_cases(ctx, batch, "lost_C10", lcases, "lcase", LOST_DEFS, shard=150) if lcases else {k: [] for k, _ in LOST_DEFS}
    lost = {k: set(v) for k, v in lost.items()}
    budget = {"n": 60}
    sig_hist = {}
    reported_pkgs = set()
    order = sorted(range(len(fails)), key=lambda x: len(texts[objs[fails[x][0]]["sid"]]))
    for x in order:
        i, d, lang, cls = fails[x]
        o = objs[i]
        sid = o["sid"]
        fmt = by_sid[sid]["fmt"]
        if cls == "package-does-not-compile":
            sig = {"kind": "go-package-does-not-compile", "fmt": fmt, "cause": go_compile_cause(batch.compile_errors.get(sid, ""))}
            extra = {"observed": batch.compile_errors.get(sid, "")[:1500]}
            if (sid, "go") in reported_pkgs:
                sig_hist[json.dumps(sig, sort_keys=True)] = sig_hist.get(json.dumps(sig, sort_keys=True), 0) + 1
                continue
            reported_pkgs.add((sid, "go"))
        elif cls == "module-not-importable":
            sig = {"kind": "python-module-not-importable", "fmt": fmt, "cause": (o.get("py") or {}).get("import", "?")}
            extra = {"observed": o.get("py")}
        else:
            if x in lost["FE"]:
                where = "front-end"
            elif lang == "go" and x in lost["GOCHAIN"]:
                where = "compiler-passes"
            elif lang == "python" and x in lost["PYCHAIN"]:
                where = "compiler-passes"
            else:
                where = "jenny"
            sig = {"kind": "constant-not-held" if d["kind"] in ("const", "constenum") else "default-not-held", "lang": lang, "fmt": fmt,
                   "dkind": d["kind"], "cause": cls, "lost": where}
            ft = [f_["t"] for f_ in ctorgen.struct_nodes(by_sid[sid])[o["key"]]["fields"] if f_["name"] == d["field"]][0]
            if ft["k"] == "float":
                sig["type"] = ft["w"] + (":number-without-format" if ft.get("nofmt") else "")
            extra = {"object": o["gname"] if lang == "go" else o["pname"], "field": d["field"], "declared": d["value"],
                     "observed": o["go_obs"] if lang == "go" else o["py_obs"]}
        key = json.dumps(sig, sort_keys=True)
        sig_hist[key] = sig_hist.get(key, 0) + 1
        if budget["n"] > 0 and verdict.propfail(sig, payload(sid, extra)) == "violation":
            budget["n"] -= 1
    # a second default object differs from the first after the first one's collections were mutated
    for i in ev["PF_AGAIN"]:
        o = objs[i]
        changed = sorted(k for k in (o["py_obs"] or {}) if not srcgen.json_same((o["py_obs"] or {}).get(k), (o["py_again"] or {}).get(k, KeyError))) \
            if isinstance(o["py_again"], dict) and isinstance(o["py_obs"], dict) else []
        kinds = sorted({d["kind"] for d in o["decls"] if d["field"] in changed}) or ["no-declared-default"]
        verdict.propfail({"kind": "python-default-shared-between-instances", "fmt": by_sid[o["sid"]]["fmt"], "dkind": "+".join(kinds)},
                         payload(o["sid"], {"object": o["pname"], "first": o["py_obs"], "second_after_mutating_the_first": o["py_again"]}))
    # constructor raised / driver died although the module imported
    for i, o in enumerate(objs):
        p = o.get("py")
        if p and p.get("import") == "ok" and p.get("known") and p.get("ctors") == "exc":
            verdict.propfail({"kind": "python-constructor-raises", "fmt": by_sid[o["sid"]]["fmt"], "cause": p.get("ctor_exc", "?")},
                             payload(o["sid"], {"object": o["pname"], "observed": p}))
        g = o.get("go")
        if g and g.get("ctors") == "panic":
            verdict.propfail({"kind": "go-constructor-panics", "fmt": by_sid[o["sid"]]["fmt"], "cause": "panic"},
                             payload(o["sid"], {"object": o["gname"]}))

    # ---- mismatches
    unexplained = []
    for k in ("MM_GO", "MM_PY", "MM_FE", "PF_AGAIN"):
        for i in ev[k][:8]:
            o = objs[i]
            unexplained.append(dict(payload(o["sid"]), which=k, object=o["key"], go_compiles=o["go_compiles"],
                                    go_observed=o["go_obs"], py_import=o["py_import"], py_observed=o["py_obs"],
                                    compile_error=batch.compile_errors.get(o["sid"], "")[:600]))
    for dsg in evaluator_disagreements:
        unexplained.append({"job": {}, "which": "python and Coq evaluate the property differently", "detail": dsg})

    # ---- coverage
    kind_hist, fmt_hist, acc_hist = {}, {}, {}
    distinct, nontriv = set(), 0
    for i, o in enumerate(objs):
        fmt = by_sid[o["sid"]]["fmt"]
        fmt_hist[fmt] = fmt_hist.get(fmt, 0) + 1
        for d in o["decls"]:
            kk = fmt + ":" + d["kind"]
            kind_hist[kk] = kind_hist.get(kk, 0) + 1
            if d["accepted"]:
                acc_hist[kk] = acc_hist.get(kk, 0) + 1
        h = core.canon_hash([texts[o["sid"]], o["key"]])
        if h in distinct or i in ev["GO_UNM"] or i in ev["PY_UNM"]:
            continue
        distinct.add(h)
        if len({d["kind"] for d in o["decls"] if d["accepted"]}) >= 2:
            nontriv += 1
    gen_hist = {}
    for sid, g in batch.gen.items():
        key = by_sid[sid]["fmt"] + ":" + (g.status if g.status == "OK" else g.status + "@" + g.stage)
        gen_hist[key] = gen_hist.get(key, 0) + 1
    samples = []
    for o in objs[:3]:
        samples.append({"format": by_sid[o["sid"]]["fmt"], "object": o["key"],
                        "declared": [{"field": d["field"], "kind": d["kind"], "value": srcgen.dumps(d["value"]), "accepted": d["accepted"]} for d in o["decls"]],
                        "go": srcgen.dumps(o["go_obs"]) if o["go_obs"] is not None else ("(package does not compile)" if not o["go_compiles"] else None),
                        "python": srcgen.dumps(o["py_obs"]) if o["py_obs"] is not None else None})
    mm = sorted(set(ev["MM_GO"]) | set(ev["MM_PY"]) | set(ev["MM_FE"]))
    cov = {
        "evaluations": len(objs),
        "distinct_nontrivial": nontriv,
        "rule": "one evaluation = one generated object whose Go and Python constructors were run (or whose package failed to compile / import); distinct by hash of (schema text, object); non-trivial = the object declares accepted defaults/constants of >= 2 different value kinds; objects outside the modelled fragment not counted",
        "samples": samples,
        "schemas": len(schemas),
        "cog_outcomes_by_format": gen_hist,
        "objects_by_format": fmt_hist,
        "declared_by_format_and_kind": kind_hist,
        "accepted_by_format_and_kind": acc_hist,
        "default_values_validated": n_leaf,
        "default_values_accepted": n_acc,
        "go_packages_not_compiling": len(batch.compile_errors),
        "python_modules_not_importing": len({o["sid"] for o in objs if o.get("py") and not o["py_import"]}),
        "objects_where_a_default_or_constant_is_not_held": {"go": len(ev["PF_GO"]), "python": len(ev["PF_PY"]), "languages_disagree": len(ev["PF_AGREE"])},
        "objects_whose_second_default_instance_differs_after_mutating_the_first": len(ev["PF_AGAIN"]),
        "failures_by_signature": {k: v for k, v in sorted(sig_hist.items(), key=lambda kv: -kv[1])},
        "unmodelled_objects": {"go": len(ev["GO_UNM"]), "python": len(ev["PY_UNM"])},
        "mismatches_model_vs_impl": {k: len(ev[k]) for k in ("MM_GO", "MM_PY", "MM_FE")},
        "property_evaluator_disagreements": evaluator_disagreements,
        "cases_validated_against_impl": len(objs) - len(mm) - len(set(ev["GO_UNM"]) | set(ev["PY_UNM"])),
    }
    return {"coverage": cov, "unexplained_mismatches": unexplained,
            "search_note": "generated default-declaring schemas (3 formats) -> real cog -> Go and Python constructors run; defaults validated by the schema languages' own validators"}


def eval_cases(ctx, batch, name, cases, case_type, defs, shard=40):
    pre = lambda sids: "".join("Definition pre_%s : schemas := %s.\n" % (sid, batch.gen[sid].pre_ir) for sid in sids)
    return gencode_py.eval_cases2(ctx, name, "Model.IR Model.Json Model.GoSemBase Model.Ctor Model.PySem Model.CtorChecks", batch, cases, case_type, defs, shard=shard, extra_defs=pre)
