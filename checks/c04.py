"""C04 — no input or configuration makes cog panic or hang.

Theorems: coq/Props/C04.v (which modelled steps can never panic, and exactly when the others do).
Tie to the code / search: the REAL cog CLI, built from /repo's working tree, is run in a
subprocess with a watchdog on generated and mutated schema documents (JSON Schema, OpenAPI, CUE)
x generated YAML configuration (schema transformations and builder transformations drawn from
the JSON Schemas cog publishes, valid and malformed) x output selections.  Outcome classes:
ok | error | panic | fatal | timeout.  A panic / fatal error / timeout is a property failure;
its signature is the first frame of the Go stack inside github.com/grafana/cog."""
import copy
import glob
import json
import os
import re
import shutil
import subprocess

from gen import schemadoc
from vlib import core

COQ_TARGETS = ["Props/C04.vo"]
PROPS = "Props/C04.v"
TRUSTED = [
    "the byte level (third-party parsers: santhosh-tekuri/jsonschema, kin-openapi, CUE, yaml.v3) is not modelled: it is exercised by running the real CLI under a watchdog (search, not proof)",
    "outcome classification from the process exit status and the Go runtime's panic/fatal banner on stderr",
]
ASSUMPTIONS = ["a run is 'hung' when it exceeds the watchdog (20 s; normal runs take < 0.2 s)"]

LANG_BLOCKS = {
    "go": {"go": {"package_root": "example.com/gen", "generate_json_marshaller": True, "generate_strict_unmarshaller": True,
                  "generate_equal": True, "generate_validate": True}},
    "go_plain": {"go": {"package_root": "example.com/gen"}},
    "python": {"python": {"generate_json_marshaller": True}},
    "typescript": {"typescript": {}},
    "java": {"java": {"package_path": "com.x", "generate_json_marshaller": True}},
    "php": {"php": {"namespace_root": "X\\Y", "generate_json_marshaller": True}},
    "jsonschema": {"jsonschema": {}},
    "openapi": {"openapi": {}},
}

HANDCRAFTED_JSONSCHEMA = [
    {"definitions": {"A": {"type": "object", "properties": {"self": {"$ref": "#/definitions/A"}, "k": {"const": "a"}}},
                     "B": {"type": "object", "properties": {"k": {"const": "b"}, "xs": {"type": "array", "items": {"$ref": "#/definitions/A"}}}},
                     "U": {"oneOf": [{"$ref": "#/definitions/A"}, {"$ref": "#/definitions/B"}]},
                     "E": {"enum": ["a", "b", ""]}, "N": {"type": "integer", "enum": [1, 2, -3]},
                     "M": {"type": "object", "additionalProperties": {"$ref": "#/definitions/U"}},
                     "Alias": {"$ref": "#/definitions/B"}, "D": {"type": "string", "default": "x", "minLength": 1},
                     "F": {"type": "number", "default": 1.5, "minimum": 0}},
     "$ref": "#/definitions/B"},
    {"type": "object", "properties": {"a": {"type": ["string", "null"]}, "b": {"anyOf": [{"type": "string"}, {"type": "array", "items": {"anyOf": [{"type": "integer"}, {"type": "boolean"}]}}]},
                                      "c": {"allOf": [{"type": "object", "properties": {"x": {"type": "string"}}}, {"type": "object", "properties": {"y": {"type": "boolean"}}}]},
                                      "t": {"type": "string", "format": "date-time"}, "any": {}}},
]


SUBSCHEMAS = [{}, {"type": "string"}, {"type": "integer"}, {"type": "number"}, {"type": "boolean"}, {"type": "null"},
              {"type": ["string", "null"]}, {"type": "array"}, {"type": "array", "items": {"type": "string"}},
              {"type": "array", "items": [{"type": "string"}, {"type": "integer"}]}, {"type": "object"},
              {"type": "object", "additionalProperties": {"type": "integer"}}, {"type": "object", "additionalProperties": False},
              {"type": "object", "properties": {"k": {"const": "v"}, "n": {"type": "integer"}}, "required": ["k"]},
              {"$ref": "#/definitions/A"}, {"$ref": "#/definitions/Missing"}, {"$ref": "#/components/schemas/Missing"}, {"$ref": "#"},
              {"enum": []}, {"enum": [None]}, {"enum": [1, "a"]}, {"enum": ["", "a"]}, {"type": "integer", "enum": [1, 2]},
              {"type": "string", "enum": ["-x", "+y", "1"]}, {"oneOf": []}, {"anyOf": [{}]}, {"allOf": []},
              {"oneOf": [{"type": "string"}, {"type": "null"}]}, {"oneOf": [{"const": "a"}, {"const": "b"}]},
              {"anyOf": [{"type": "string"}, {"type": "array", "items": {"anyOf": [{"type": "integer"}, {"type": "boolean"}]}}]},
              {"oneOf": [{"type": "object", "properties": {"t": {"const": "x"}}}, {"type": "object", "properties": {"t": {"const": "y"}}}]},
              {"allOf": [{"type": "object", "properties": {"x": {"type": "string"}}}]},
              {"const": None}, {"const": {"a": 1}}, {"const": 3}, {"const": "c"},
              {"type": "integer", "default": "x"}, {"type": "string", "default": 3}, {"type": "string", "enum": ["a"], "default": "zz"},
              {"type": "number", "default": 1.5, "minimum": 0, "maximum": 2}, {"type": "string", "minLength": 1, "maxLength": 0},
              {"type": "string", "format": "date-time"}, {"type": "array", "default": [1, "a"]}, {"type": "object", "default": {"a": 1}},
              {"type": "integer", "format": "int32"}, {"type": "number", "format": "float"}, {"type": "integer", "format": "uint8", "minimum": -1}]
ANYVALS = [None, [], {}, "", 0, -1, 1.5, True, "string", "object", "array", "integer", "null", ["string", "null"], [{}],
           {"propertyName": 3}, {"propertyName": "k", "mapping": {"a": "#/components/schemas/Missing", "b": 3}}]


def _obj(props, required=None, **kw):
    d = {"type": "object", "properties": props}
    if required:
        d["required"] = required
    d.update(kw)
    return d


def _ref(n):
    return {"$ref": "#/definitions/" + n}


# more seeds: every shape the compiler passes and jennies special-case, in legal documents
HANDCRAFTED_JSONSCHEMA += [
    # unions of struct references whose branches share constant fields of various types
    {"definitions": {"Doc": _obj({"spec": {"oneOf": [_ref("V1"), _ref("V2")]}, "alt": {"anyOf": [_ref("V1"), _ref("V2"), _ref("V3")]}}),
                     "V1": _obj({"version": {"type": "integer", "const": 1}, "kind": {"const": "one"}, "on": {"const": True}, "title": {"type": "string"}}, ["version"]),
                     "V2": _obj({"version": {"type": "integer", "const": 2}, "kind": {"const": "two"}, "on": {"const": False}, "name": {"type": "string"}}, ["version"]),
                     "V3": _obj({"version": {"type": "number", "const": 2.5}, "name": {"type": "string"}})},
     "$ref": "#/definitions/Doc"},
    # recursive and mutually recursive aliases that are not structs
    {"definitions": {"Holder": _obj({"children": _ref("Tree"), "nested": _ref("Nested"), "ping": _ref("Ping")}),
                     "Tree": {"type": "object", "additionalProperties": _ref("Tree")},
                     "Nested": {"type": "array", "items": _ref("Nested")},
                     "Ping": {"type": "array", "items": _ref("Pong")}, "Pong": {"type": "object", "additionalProperties": _ref("Ping")},
                     "Str": {"type": "string"}, "StrList": {"type": "array", "items": _ref("Str")}, "StrMap": {"type": "object", "additionalProperties": _ref("StrList")}},
     "$ref": "#/definitions/Holder"},
    # anonymous structs / enums at depth, case-colliding and odd names, enum member edge cases
    {"definitions": {"Panel": _obj({"options": _obj({"legend": _obj({"mode": {"enum": ["list", "table", ""]}, "sizes": {"type": "array", "items": {"enum": [1, 2, -3]}}})}),
                                   "Options": {"type": "string"}, "field-name": {"type": "integer"}, "field_name": {"type": "integer"}, "1st": {"type": "boolean"},
                                   "targets": {"type": "array", "items": _obj({"refId": {"type": "string"}, "hide": {"type": "boolean", "default": False}})},
                                   "byName": {"type": "object", "additionalProperties": _obj({"v": {"type": "number"}})}}),
                     "panel": {"type": "string", "enum": ["-a", "+b", "1", "a b", "A"]}, "Sign": {"type": "integer", "enum": [-1, 0, 1]}},
     "$ref": "#/definitions/Panel"},
    # defaults of every kind, constraints, formats, nullable forms
    {"definitions": {"D": _obj({"s": {"type": "string", "default": "x", "minLength": 1, "maxLength": 5}, "i": {"type": "integer", "default": 3, "minimum": 0, "exclusiveMaximum": 10},
                                "f": {"type": "number", "default": 1.5}, "b": {"type": "boolean", "default": True}, "l": {"type": "array", "items": {"type": "string"}, "default": ["a", "b"]},
                                "o": {"allOf": [_ref("E")], "default": {"x": 1}}, "e": {"enum": ["a", "b"], "default": "b"}, "n": {"type": ["integer", "null"], "default": None},
                                "t": {"type": "string", "format": "date-time"}, "u8": {"type": "integer", "minimum": 0, "maximum": 255}, "any": {}, "m": {"type": "object"}},
                               ["s", "i"]),
                     "E": _obj({"x": {"type": "integer", "default": 7}, "y": {"type": "string"}})},
     "$ref": "#/definitions/D"},
    # intersections and unions mixing scalars, arrays, maps, constants, null
    {"definitions": {"Mix": _obj({"a": {"oneOf": [{"type": "string"}, {"type": "array", "items": {"type": "string"}}, {"type": "null"}]},
                                  "b": {"oneOf": [{"const": "x"}, {"const": "y"}, {"type": "null"}]}, "c": {"anyOf": [{"type": "integer"}, {"type": "object", "additionalProperties": {"type": "integer"}}]},
                                  "d": {"allOf": [_ref("Base"), _obj({"extra": {"type": "string"}})]}, "e": {"oneOf": [_ref("Base"), {"type": "string"}]},
                                  "f": {"oneOf": [{"oneOf": [{"type": "string"}, {"type": "boolean"}]}, {"type": "integer"}]}}),
                     "Base": _obj({"id": {"type": "string"}}, ["id"]), "Ext": {"allOf": [_ref("Base"), _obj({"more": {"type": "boolean"}})]}},
     "$ref": "#/definitions/Mix"},
]


def js_mutate(rng, doc):
    """one structural mutation of a JSON document (mostly keeps it a valid schema document)"""
    doc = copy.deepcopy(doc)
    sub, nodes = [], []

    def walk(x, parent, key, is_schema):
        nodes.append((x, parent, key))
        if is_schema and parent is not None:
            sub.append((x, parent, key))
        if isinstance(x, dict):
            for k in list(x):
                v = x[k]
                if k in ("properties", "definitions", "$defs", "schemas", "patternProperties") and isinstance(v, dict):
                    nodes.append((v, x, k))
                    for kk in list(v):
                        walk(v[kk], v, kk, True)
                elif k in ("items", "additionalProperties", "not") and isinstance(v, dict):
                    walk(v, x, k, True)
                elif k in ("oneOf", "anyOf", "allOf") and isinstance(v, list):
                    nodes.append((v, x, k))
                    for i, e in enumerate(v):
                        walk(e, v, i, True)
                else:
                    walk(v, x, k, False)
        elif isinstance(x, list):
            for i, v in enumerate(x):
                walk(v, x, i, False)
    walk(doc, None, None, True)
    c = rng.random()
    if sub and c < 0.7:
        x, parent, key = rng.choice(sub)
        c2 = rng.random()
        if c2 < 0.6:
            parent[key] = copy.deepcopy(rng.choice(SUBSCHEMAS))
        elif c2 < 0.8 and isinstance(x, dict):
            k = rng.choice(["default", "nullable", "format", "enum", "const", "required", "discriminator", "minimum", "type", "items", "$ref"])
            x[k] = copy.deepcopy(rng.choice(ANYVALS + [["k"], ["missing"], "date-time", 1, "x"]))
        elif isinstance(parent, dict) and c2 < 0.9:
            del parent[key]
        else:
            parent[key] = {"oneOf": [copy.deepcopy(x), copy.deepcopy(rng.choice(SUBSCHEMAS))]}
        return doc
    x, parent, key = rng.choice(nodes)
    if parent is None:
        return doc
    if c < 0.85:
        parent[key] = copy.deepcopy(rng.choice(ANYVALS + SUBSCHEMAS))
    elif isinstance(parent, dict):
        del parent[key]
    else:
        parent.append(copy.deepcopy(x))
    return doc


def names_of(doc):
    """identifier pool from a JSON schema / OpenAPI document"""
    objs, fields = set(), set()

    def walk(x):
        if isinstance(x, dict):
            for k, v in x.items():
                if k in ("definitions", "$defs", "schemas") and isinstance(v, dict):
                    objs.update(v.keys())
                if k == "properties" and isinstance(v, dict):
                    fields.update(v.keys())
                walk(v)
        elif isinstance(x, list):
            for v in x:
                walk(v)
    walk(doc)
    return sorted(objs) or ["Foo"], sorted(fields) or ["id"]


def string_pools(pkg, objs, fields):
    o = objs + [pkg, pkg.capitalize()]
    refs2 = ["%s.%s" % (pkg, x) for x in o] + ["%s.%s" % (a, f) for a in o for f in fields[:6]]
    refs3 = ["%s.%s.%s" % (pkg, a, f) for a in o for f in fields[:6]]
    kinds = ["struct", "scalar", "ref", "array", "map", "enum", "disjunction", "intersection", "constant_ref", "composable_slot", "bogus"]
    return {
        "*": o + fields + refs2[:20] + refs3[:20] + kinds + ["string", "int64", "bool", "any"],
        "kind": kinds, "scalar_kind": ["string", "int64", "float64", "bool", "any", "null", "bytes", "uint8", "nope"],
        "package": [pkg, pkg, pkg, "other"], "referred_pkg": [pkg, "other"], "referred_type": o,
        "object": refs2, "from": refs2, "to": refs2 + o, "objects": refs2, "field": refs3, "fields": refs3,
        "by_object": o + refs2, "by_name": refs2 + o, "by_builder": refs2, "as": o + refs2, "name": o + fields,
        "language": ["go", "python", "typescript", "java", "php", "all", "jsonschema"],
        "op": ["minLength", "maxLength", ">=", "<", "==", "~"], "entry_point": o, "identifier": o, "source": refs2, "into": refs2,
        "builder": o + refs2, "option": fields + refs2, "discriminator": fields,
    }


PAYLOAD_KEY = {"scalar": "scalar", "ref": "ref", "array": "array", "map": "map", "struct": "struct", "enum": "enum",
               "disjunction": "disjunction", "intersection": "intersection", "constant_ref": "constantreference",
               "composable_slot": "composable_slot"}


def wf_type(t):
    """is a YAML-given ast.Type well-formed: its kind names a payload that is present and complete"""
    if not isinstance(t, dict):
        return False
    k = t.get("kind")
    if k not in PAYLOAD_KEY:
        return False
    p = t.get(PAYLOAD_KEY[k])
    if not isinstance(p, dict):
        return False
    if k == "scalar":
        return p.get("scalar_kind") in ("null", "any", "bytes", "string", "float32", "float64", "uint8", "uint16", "uint32",
                                        "uint64", "int8", "int16", "int32", "int64", "bool")
    if k in ("ref", "constant_ref"):
        return bool(p.get("referred_pkg")) and bool(p.get("referred_type"))
    if k == "array":
        return wf_type(p.get("valuetype"))
    if k == "map":
        return wf_type(p.get("indextype")) and wf_type(p.get("valuetype"))
    if k == "struct":
        return all(isinstance(f, dict) and f.get("name") and wf_type(f.get("type")) for f in (p.get("fields") or []))
    if k == "enum":
        vs = p.get("values") or []
        return len(vs) > 0 and all(isinstance(v, dict) and v.get("name") and wf_type(v.get("type")) and v["type"].get("kind") == "scalar" for v in vs)
    if k in ("disjunction", "intersection"):
        bs = p.get("branches") or []
        return len(bs) > 0 and all(wf_type(b) for b in bs)
    return True


def config_cause(case):
    """root cause visible in the configuration files of a case (used to identify known findings by input)"""
    bad = []

    def walk(x, key):
        if isinstance(x, dict):
            if key in ("as", "type", "valuetype", "indextype") or "kind" in x:
                if x and not wf_type(x):
                    bad.append(key)
                    return
            for k, v in x.items():
                walk(v, k)
        elif isinstance(x, list):
            for v in x:
                walk(v, key)
    for name in ("passes.yaml", "veneers/v.yaml"):
        txt = case["files"].get(name)
        if txt:
            try:
                walk(json.loads(txt), None)
            except ValueError:
                pass
    if bad:
        return "yaml-malformed-type"
    if has_recursive_alias(case):
        return "recursive-alias"
    return "none"


def has_recursive_alias(case):
    """does the JSON Schema / OpenAPI input define a type that refers to itself WITHOUT passing
    through an object property (array items, additionalProperties, plain $ref, union branches)?"""
    txt = case["files"].get("schema.json")
    if not txt:
        return False
    try:
        doc = json.loads(txt)
    except ValueError:
        return False
    defs = {}
    if isinstance(doc, dict):
        for key in ("definitions", "$defs"):
            if isinstance(doc.get(key), dict):
                defs.update(doc[key])
        comps = doc.get("components")
        if isinstance(comps, dict) and isinstance(comps.get("schemas"), dict):
            defs.update(comps["schemas"])

    def alias_targets(s, acc):
        if not isinstance(s, dict):
            return
        r = s.get("$ref")
        if isinstance(r, str):
            acc.add(r.split("/")[-1])
        for k in ("items", "additionalProperties"):
            alias_targets(s.get(k), acc)
        for k in ("oneOf", "anyOf", "allOf"):
            if isinstance(s.get(k), list):
                for b in s[k]:
                    alias_targets(b, acc)
    edges = {}
    for n, sch in defs.items():
        acc = set()
        alias_targets(sch, acc)
        edges[n] = {t for t in acc if t in defs}
    for start in edges:
        seen, todo = set(), list(edges[start])
        while todo:
            x = todo.pop()
            if x == start:
                return True
            if x in seen:
                continue
            seen.add(x)
            todo += list(edges.get(x, ()))
    return False


def classify(rc, out):
    if rc == "timeout":
        return "timeout", "watchdog"
    m = re.search(r"^(panic: .*|fatal error: .*)$", out, re.M)
    if m or "goroutine 1 [running]" in out:
        kind = "fatal" if (m and m.group(1).startswith("fatal")) else "panic"
        frames = re.findall(r"^(github\.com/grafana/cog/\S+?)\([^()]*\)\s*$", out, re.M)
        where = frames[0] if frames else "unknown"
        # for stack overflows the interesting frame is the one that repeats
        if kind == "fatal" and frames:
            where = max(set(frames[:200]), key=frames[:200].count)
        return kind, where.replace("github.com/grafana/cog/", "")
    if rc == 0:
        return "ok", ""
    return "error", ""


def run_case(cog, case, workdir, timeout=20):
    d = os.path.join(workdir, "case")
    shutil.rmtree(d, ignore_errors=True)
    os.makedirs(os.path.join(d, "veneers"))
    for name, text in case["files"].items():
        p = os.path.join(d, name)
        os.makedirs(os.path.dirname(p), exist_ok=True)
        with open(p, "w") as f:
            f.write(text)
    try:
        p = subprocess.run([cog, case.get("command", "generate"), "--config", os.path.join(d, "pipeline.yaml")] + case.get("extra_args", []),
                           cwd=d, stdout=subprocess.PIPE, stderr=subprocess.STDOUT, text=True, timeout=timeout,
                           env=dict(os.environ, GOMAXPROCS="2", GODEBUG="", GOTRACEBACK="single"))
        rc, out = p.returncode, p.stdout
    except subprocess.TimeoutExpired as e:
        rc, out = "timeout", (e.stdout or b"").decode("utf8", "replace") if isinstance(e.stdout, bytes) else (e.stdout or "")
    shutil.rmtree(d, ignore_errors=True)
    kind, where = classify(rc, out)
    m = re.search(r"^(panic: .*|fatal error: .*)$", out, re.M)
    return {"outcome": kind, "where": where, "banner": m.group(1)[:300] if m else "",
            "output_tail": out[-1500:] if kind not in ("ok", "error") else out[-200:]}


# well-formed transformation sequences aimed at ONE object, and multi-package pipelines: the random configuration
# stream almost never lines two valid passes up on the same target, nor gives a run two inputs
_Y_TYPES = [{"kind": "scalar", "scalar": {"scalar_kind": "string"}}, {"kind": "scalar", "scalar": {"scalar_kind": "int64"}},
            {"kind": "array", "array": {"value_type": {"kind": "scalar", "scalar": {"scalar_kind": "string"}}}},
            {"kind": "map", "map": {"index_type": {"kind": "scalar", "scalar": {"scalar_kind": "string"}},
                                    "value_type": {"kind": "scalar", "scalar": {"scalar_kind": "bool"}}}},
            {"kind": "struct", "struct": {"fields": [{"name": "added", "type": {"kind": "scalar", "scalar": {"scalar_kind": "string"}}, "required": True}]}}]


def _two_package_docs(rng):
    alpha = {"$schema": "http://json-schema.org/draft-07/schema#", "$ref": "#/definitions/Root", "definitions": {
        "Root": _obj({"name": {"type": "string"}, "item": _ref("Alias"), "items": _ref("List")}, ["name"]),
        "Alias": _ref("Base"), "List": {"type": "array", "items": _ref("Base")},
        "Base": _obj({"id": {"type": "integer"}, "label": {"type": "string"}}, ["id"])}}
    beta = {"$schema": "http://json-schema.org/draft-07/schema#", "$ref": "#/definitions/Settings", "definitions": {
        "Settings": _obj({"enabled": {"type": "boolean"}, "mode": _ref("Mode")}),
        "Mode": {"enum": ["fast", "slow"]}}}
    if rng.random() < 0.5:
        beta["definitions"]["Alias"] = _ref("Settings")
    if rng.random() < 0.3:
        alpha["definitions"].pop("List"); alpha["definitions"]["Root"]["properties"].pop("items")
    return alpha, beta


def structured_case(rng):
    files, transforms = {}, {}
    two = rng.random() < 0.5
    if two:
        a, b = _two_package_docs(rng)
        files["alpha.json"], files["beta.json"] = json.dumps(a), json.dumps(b)
        inputs = [{"jsonschema": {"path": "%__config_dir%/alpha.json", "package": "alpha"}},
                  {"jsonschema": {"path": "%__config_dir%/beta.json", "package": "beta"}}]
        if rng.random() < 0.5:
            inputs.reverse()
        pkg, objs, fields = "alpha", ["Root", "Base", "Alias"], ["name", "item", "id", "label"]
    else:
        doc = {"$schema": "http://json-schema.org/draft-07/schema#", "$ref": "#/definitions/Root", "definitions": {
            "Root": _obj({"name": {"type": "string"}, "child": _ref("Child"), "tags": {"type": "array", "items": {"type": "string"}}}, ["name", "child"]),
            "Child": _obj({"n": {"type": "integer"}, "flag": {"type": "boolean", "default": True}})}}
        files["schema.json"] = json.dumps(doc)
        inputs = [{"jsonschema": {"path": "%__config_dir%/schema.json", "package": "pk"}}]
        pkg, objs, fields = "pk", ["Root", "Child"], ["name", "child", "n", "flag", "tags"]
    target = rng.choice(objs)
    fld = rng.choice(fields)
    menu = [
        {"retype_object": {"object": "%s.%s" % (pkg, target), "as": rng.choice(_Y_TYPES)}},
        {"hint_object": {"object": "%s.%s" % (pkg, target), "hints": {"some_hint": "some_value"}}},
        {"rename_object": {"from": "%s.%s" % (pkg, target), "to": "Renamed"}},
        {"duplicate_object": {"object": "%s.%s" % (pkg, target), "as": "%s.Copy" % pkg}},
        {"add_fields": {"to": "%s.%s" % (pkg, target), "fields": [{"name": "extra", "type": rng.choice(_Y_TYPES), "required": rng.random() < 0.5}]}},
        {"retype_field": {"field": "%s.%s.%s" % (pkg, target, fld), "as": rng.choice(_Y_TYPES)}},
        {"fields_set_default": {"defaults": {"%s.%s.%s" % (pkg, target, fld): rng.choice(["x", 1, True])}}},
        {"fields_set_not_required": {"fields": ["%s.%s.%s" % (pkg, target, fld)]}},
        {"omit_fields": {"fields": ["%s.%s.%s" % (pkg, target, fld)]}},
        {"add_object": {"object": "%s.Added" % pkg, "as": rng.choice(_Y_TYPES)}},
        {"hint_object": {"object": "%s.Added" % pkg, "hints": {"h": "v"}}},
        {"schema_set_entry_point": {"package": pkg, "entry_point": target}},
    ]
    passes = [copy.deepcopy(rng.choice(menu)) for _ in range(rng.randint(0, 4))]
    if passes:
        files["passes.yaml"] = json.dumps({"passes": passes})
        transforms["schemas"] = ["%__config_dir%/passes.yaml"]
    langs = rng.sample(list(LANG_BLOCKS), rng.randint(1, 3))
    if two and rng.random() < 0.6 and "java" in LANG_BLOCKS and "java" not in langs:
        langs.append("java")
    out = {"directory": "%__config_dir%/out/%l", "types": True, "builders": rng.random() < 0.6, "converters": rng.random() < 0.3,
           "languages": [LANG_BLOCKS[l] for l in langs if not (l == "go_plain" and "go" in langs)]}
    pipeline = {"inputs": inputs, "output": out}
    if transforms:
        pipeline["transformations"] = transforms
    files["pipeline.yaml"] = json.dumps(pipeline)
    return {"files": files, "format": "jsonschema", "mutations": 0, "config": "structured", "languages": langs, "command": "generate"}


def make_case(rng, seeds, schemas):
    if rng.random() < 0.2:
        return structured_case(rng)
    fmt = rng.choice(["jsonschema", "jsonschema", "openapi", "openapi", "cue"])
    if fmt == "cue" and not seeds["cue"]:
        fmt = "jsonschema"
    files = {}
    pkg = "pk"
    mutated = 0
    if fmt == "cue":
        text = rng.choice(seeds["cue"])
        if rng.random() < 0.5:
            toks = ["string", "int64", "bool", "null", "[...string]", "{}", "number", "_", "\"a\" | \"b\"", "*1 | int", ">=0 & <=10", "#Missing", "[string]: int"]
            words = re.findall(r"\b(string|int64|int32|bool|number|float64|bytes|null)\b", text)
            if words:
                w = rng.choice(words)
                text = text.replace(w, rng.choice(toks), 1)
                mutated = 1
        files["cuein/schema.cue"] = "package cuein\n\n" + text
        inputs = [{"cue": {"entrypoint": "%__config_dir%/cuein", "package": pkg}}]
        if rng.random() < 0.3:
            inputs[0]["cue"]["forced_envelope"] = "Envelope"
        objs, fields = re.findall(r"^#?(\w+):", text, re.M) or ["Foo"], re.findall(r"^\s+(\w+)\??:", text, re.M) or ["id"]
    else:
        doc = copy.deepcopy(rng.choice(seeds[fmt]))
        nmut = rng.choice([0, 0, 1, 1, 2, 3])
        for _ in range(nmut):
            doc = js_mutate(rng, doc)
        mutated = nmut
        files["schema.json"] = json.dumps(doc)
        inp = {"path": "%__config_dir%/schema.json", "package": pkg}
        if fmt == "openapi" and rng.random() < 0.5:
            inp["no_validate"] = True
        objs, fields = names_of(doc)
        if rng.random() < 0.15:
            inp["allowed_objects"] = rng.sample(objs, min(len(objs), rng.randint(1, 2)))
        if rng.random() < 0.1:
            inp["metadata"] = {"kind": rng.choice(["core", "composable"]), "variant": rng.choice(["dataquery", "panelcfg", ""]), "identifier": rng.choice(objs)}
        inputs = [{fmt: inp}]
    pools = string_pools(pkg, objs, fields)
    transforms = {}
    cfg_kind = rng.choice(["none", "none", "passes", "passes", "veneers", "both"])
    if cfg_kind in ("passes", "both"):
        g = schemadoc.DocGen(schemas["compiler_passes"], rng, pools, union_defs={"YamlCompilerPass"})
        files["passes.yaml"] = json.dumps(g.gen())
        transforms["schemas"] = ["%__config_dir%/passes.yaml"]
    if cfg_kind in ("veneers", "both"):
        g = schemadoc.DocGen(schemas["veneers"], rng, pools, union_defs={"YamlBuilderRule", "YamlOptionRule", "YamlBuilderSelector", "YamlOptionSelector"})
        doc = g.gen()
        if rng.random() < 0.9:
            doc["package"] = pkg if rng.random() < 0.8 else "all"
            doc["language"] = rng.choice(["all", "go", "python"])
        files["veneers/v.yaml"] = json.dumps(doc)
        transforms["builders"] = ["%__config_dir%/veneers"]
    langs = rng.sample(list(LANG_BLOCKS), rng.randint(1, 4))
    out = {"directory": "%__config_dir%/out/%l", "types": rng.random() < 0.9, "builders": rng.random() < 0.7,
           "converters": rng.random() < 0.4, "api_reference": rng.random() < 0.2,
           "languages": [LANG_BLOCKS[l] for l in langs if not (l == "go_plain" and "go" in langs)]}
    pipeline = {"inputs": inputs, "output": out}
    if transforms:
        pipeline["transformations"] = transforms
    files["pipeline.yaml"] = json.dumps(pipeline)
    return {"files": files, "format": fmt, "mutations": mutated, "config": cfg_kind, "languages": langs,
            "command": "generate" if rng.random() < 0.9 else "inspect"}


def load_seeds():
    seeds = {"jsonschema": list(HANDCRAFTED_JSONSCHEMA), "openapi": [], "cue": []}
    for p in sorted(glob.glob(os.path.join(core.REPO, "testdata/jsonschema/*/schema.json"))):
        seeds["jsonschema"].append(json.load(open(p)))
    for p in sorted(glob.glob(os.path.join(core.REPO, "testdata/openapi/*/schema.json"))):
        seeds["openapi"].append(json.load(open(p)))
    for p in sorted(glob.glob(os.path.join(core.REPO, "testdata/simplecue/*/schema.cue"))):
        seeds["cue"].append(open(p).read())
    for d in seeds["jsonschema"][:]:
        if "definitions" in d or "$defs" in d:
            defs = d.get("definitions") or d.get("$defs")
            seeds["openapi"].append({"openapi": "3.0.0", "info": {"title": "t", "version": "1"}, "paths": {},
                                     "components": {"schemas": json.loads(json.dumps(defs).replace("#/definitions/", "#/components/schemas/").replace("#/$defs/", "#/components/schemas/"))}})
    return seeds


def run(ctx, verdict, replay=None, model_ok=True):
    rng = ctx.rng
    thorough = ctx.tier == "thorough"
    cog = os.path.join(ctx.scratch, "cog")
    rc, out = core.sh(["go", "build", "-o", cog, "./cmd/cli"], cwd=core.REPO, env=core.GOENV, timeout=900)
    if rc != 0:
        raise RuntimeError("building the cog CLI failed:\n" + out[-2000:])
    schemas = {k: json.load(open(os.path.join(core.REPO, "schemas", k + ".json"))) for k in ("compiler_passes", "veneers")}
    cases = []
    if replay:
        rp = json.load(open(replay))
        cases = [rp.get("job") or rp["first_mismatch"]["job"]]
    else:
        cdir = os.path.join(core.VERIF, "corpus", "C04")
        if os.path.isdir(cdir):
            for f in sorted(os.listdir(cdir)):
                cases.append(json.load(open(os.path.join(cdir, f)))["job"])
        seeds = load_seeds()
        for _ in range(20000 if thorough else 1500):
            cases.append(make_case(rng, seeds, schemas))
    ctx.log("cases:", len(cases))

    def do(i):
        wd = os.path.join(ctx.scratch, "w%d" % i)
        os.makedirs(wd, exist_ok=True)
        r = run_case(cog, cases[i], wd)
        shutil.rmtree(wd, ignore_errors=True)
        return r

    results = core.parallel(do, list(range(len(cases))), workers=core.NCPU)
    hist = {}
    for r in results:
        hist[r["outcome"]] = hist.get(r["outcome"], 0) + 1
    ctx.log("outcomes:", hist)
    bad = [i for i, r in enumerate(results) if r["outcome"] in ("panic", "fatal", "timeout")]
    for i in sorted(bad, key=lambda i: sum(len(v) for v in cases[i]["files"].values())):
        r = results[i]
        verdict.propfail({"outcome": r["outcome"], "where": r["where"], "cause": config_cause(cases[i])},
                         {"job": cases[i], "banner": r.get("banner", ""), "observed": r["output_tail"],
                          "predicate": "the run terminates within the watchdog with files or an error; no panic, no fatal runtime error"})
    distinct = set()
    nontriv = 0
    shape = {}
    for c, r in zip(cases, results):
        key = "%s/%s/mut%s" % (c.get("format"), c.get("config"), min(c.get("mutations", 0), 3))
        shape[key] = shape.get(key, 0) + 1
        h = core.canon_hash(c["files"])
        if h in distinct:
            continue
        distinct.add(h)
        if r["outcome"] in ("ok", "error") and (c.get("mutations", 0) > 0 or c.get("config") != "none"):
            nontriv += 1
    cov = {
        "evaluations": len(cases),
        "distinct_nontrivial": nontriv,
        "rule": "the real CLI (generate/inspect) on seed schemas (cog testdata in 3 formats + handcrafted) with 0-3 structural mutations x YAML transformation files drawn from cog's published config schemas (valid and malformed, identifiers taken from the input schema) x 1-4 output languages and random types/builders/converters/api_reference flags; distinct by hash of all input files; non-trivial = mutated schema or non-empty configuration, and the run terminated normally",
        "samples": [{"format": cases[i]["format"], "config": cases[i]["config"], "languages": cases[i]["languages"],
                     "outcome": results[i]["outcome"], "pipeline": cases[i]["files"]["pipeline.yaml"][:300]} for i in range(min(3, len(cases)))],
        "outcome_histogram": hist,
        "shape_histogram": shape,
        "crashing_or_hanging_runs": len(bad),
    }
    return {"coverage": cov, "unexplained_mismatches": [],
            "search_note": "real CLI under a watchdog on mutated schema documents and generated YAML configuration"}
