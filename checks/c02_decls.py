"""C02, second correspondence: coq/Model/GoDecl.v against the declarations of the generated Go files.

For a few option vectors the real pipeline (Go only) runs on the stream-A schemas and on the stream-B IRs; the
declarations go/parser finds in every <pkg>/types_gen.go (drivers/go/godecls) are compared, inside Coq, with
`decl_strings (decls_of_schema flags ctx s)`; the model's verdict `decls_wf flags ctx` is compared with what
`go build` says about the package (a context the model calls well-formed must compile; one that does not compile for
a reason the model covers must be called ill-formed)."""
import json
import os
import subprocess

from vlib import core, gencode, gencode_out

GOFLAG_NAMES = ("go.generate_json_marshaller", "go.generate_strict_unmarshaller", "go.generate_equal", "go.generate_validate",
                "go.any_as_interface", "go.skip_runtime", "builders")
# compiler message classes that are about declarations (what decls_wf speaks about)
DECL_CLASSES = ("duplicate-declaration", "placeholder-type-unknown", "undefined-identifier", "undefined-method-or-field")


def flags_term(fl):
    return "(mkFlags %s)" % " ".join("true" if fl[n] else "false" for n in GOFLAG_NAMES)


def vectors(rng, n):
    """the two corners, the vectors aimed at the conditions under which one type's method calls another's
    (gencode_out.targeted_go_vectors), then random ones"""
    out = [{k: False for k in GOFLAG_NAMES}, {k: (k != "go.skip_runtime") for k in GOFLAG_NAMES}]
    seen = {tuple(v[k] for k in GOFLAG_NAMES) for v in out}
    for v in gencode_out.targeted_go_vectors(rng):
        key = tuple(v[k] for k in GOFLAG_NAMES)
        if key not in seen and len(out) < n:
            seen.add(key)
            out.append({k: v[k] for k in GOFLAG_NAMES})
    while len(out) < n:
        out.append({k: rng.random() < 0.5 for k in GOFLAG_NAMES})
    return out


def build_godecls(ctx):
    binp = os.path.join(ctx.scratch, "godecls")
    if not os.path.exists(binp):
        rc, out = core.sh(["go", "build", "-o", binp, "."], cwd=os.path.join(core.VERIF, "drivers", "go", "godecls"), env=core.GOENV)
        if rc != 0:
            raise RuntimeError("godecls build failed:\n" + out)
    return binp


def run(ctx, a_inputs, b_jobs, model_ok):
    rng = ctx.rng
    thorough = ctx.tier == "thorough"
    vecs = vectors(rng, 40 if thorough else 14)
    binp = gencode_out.harness(ctx)
    godecls = build_godecls(ctx)
    a_inputs = a_inputs[: (60 if thorough else 16)]
    b_jobs = b_jobs[: (20 if thorough else 5)]
    cases, meta = [], []
    stats = {"runs_ok": 0, "runs_err": 0, "packages": 0, "packages_not_compiling": 0}
    for k, fl in enumerate(vecs):
        root = os.path.join(ctx.scratch, "c02decl", "v%d" % k)
        os.makedirs(root, exist_ok=True)
        flags = dict({n: False for n in gencode_out.FLAGS}, **fl)
        golang = [c for c in gencode_out.lang_configs(flags, "verifgen") if "go" in c]
        jobs, owners = [], []
        for inp in a_inputs:
            out = os.path.join(root, "A_" + inp["pkg"])
            cfg = os.path.join(root, "cfg_%s.yaml" % inp["pkg"])
            doc = dict(gencode_out.output_options(flags), directory=os.path.join(out, "%l"), languages=golang)
            with open(cfg, "w") as f:
                f.write("inputs:\n" + inp["yaml"] + "output: " + json.dumps(doc) + "\n")
            jobs.append(("gen", {"id": inp["pkg"], "config": cfg, "outdir": os.getcwd(), "irlangs": ["go"]}))
            owners.append((inp, out))
        for j in b_jobs:
            out = os.path.join(root, "B_" + j["id"])
            jobs.append(("genir", {"id": j["id"], "schemas": j["schemas"], "outdir": out, "output": gencode_out.output_options(flags),
                                   "langs": golang, "irlangs": ["go"], "timeout_s": 10}))
            owners.append((j, out))
        res_gen = gencode_out._run_json(binp, "gen", [j for c, j in jobs if c == "gen"], timeout=300)
        res_ir = gencode_out._run_json(binp, "genir", [j for c, j in jobs if c == "genir"], timeout=300)
        results = res_gen + res_ir

        def one(item):
            (inp, out), r = item
            if r is None or r["status"] != "OK" or not (r.get("ir") or {}).get("go"):
                return None
            if inp.get("stream") == "B" and ((r.get("langs") or {}).get("go") or {}).get("status") != "OK":
                lr = (r.get("langs") or {}).get("go") or {}
                # an error of the language chain (a pass refusing the input) is not the jenny's
                if lr.get("status") == "ERR" and not str(lr.get("message", "")).startswith("chain:") and (r.get("ir") or {}).get("go"):
                    return ("err", inp, r)
                return None
            godir = os.path.join(out, "go")
            files = [os.path.join(d, f) for d, _, fs in os.walk(godir) for f in fs if f == "types_gen.go"]
            if not files:
                return None
            p = subprocess.run([godecls] + files, stdout=subprocess.PIPE, stderr=subprocess.PIPE, text=True)
            decls = json.loads(p.stdout)
            errs = gencode_out.go_check(godir, "verifgen", vet=False)
            return ("ok", inp, r, {os.path.basename(os.path.dirname(f_)): d for f_, d in decls.items()}, errs)

        for item in core.parallel(one, list(zip(owners, results))):
            if item is None:
                stats["runs_err"] += 1
                continue
            if item[0] == "err":
                # the run reported an error for Go: the model must predict an error too
                _, inp, r = item
                cases.append({"ctx": r["ir"]["go"], "fl": fl, "pkg": "", "obs": [], "kind": "run-error", "inp": inp,
                              "msg": ((r.get("langs") or {}).get("go") or {}).get("message")})
                continue
            _, inp, r, decls, errs = item
            stats["runs_ok"] += 1
            bad_pkgs, bad_msgs = {}, {}
            for e in errs:
                if os.path.basename(e["file"]) == "types_gen.go":       # the model speaks about the types file only
                    bad_pkgs.setdefault(e["pkg"], gencode_out.classify_go(e["msg"]))
                    bad_msgs.setdefault(e["pkg"], e["msg"])
            for o in {o_["pkg"]: o_ for o_ in (r.get("objects") or {}).get("go") or []}.values():
                gp = o["gopkg"]
                if gp not in decls:
                    continue
                stats["packages"] += 1
                if gp in bad_pkgs:
                    stats["packages_not_compiling"] += 1
                cases.append({"ctx": r["ir"]["go"], "fl": fl, "pkg": o["pkg"], "obs": decls[gp], "kind": "decls", "inp": inp,
                              "compile_error": bad_pkgs.get(gp), "compile_msg": bad_msgs.get(gp)})
    if not cases or not model_ok:
        return {"coverage": dict(stats, cases=len(cases), note="model not evaluated"), "mismatches": []}
    defs = [("MM", "mm_decls"), ("WF", "model_wf"), ("RUNERR", "model_run_err")]
    shard = 40
    shards = [list(range(i, min(i + shard, len(cases)))) for i in range(0, len(cases), shard)]

    def do(k):
        ids = shards[k]
        pre = gencode.PREAMBLE % "Model.GoDeclCheck"
        for i in ids:
            pre += "Definition ctx_%d : schemas := %s.\n" % (i, cases[i]["ctx"])
        pre += "Definition cases : list dcase :=\n[%s].\n" % ";\n".join(
            "(ctx_%d, %s, %s, [%s])" % (i, flags_term(cases[i]["fl"]), json.dumps(cases[i]["pkg"]),
                                        "; ".join('"%s"' % d.replace('"', '""') for d in cases[i]["obs"])) for i in ids)
        pre += ("Fixpoint indices_from {A} (f : A -> bool) (l : list A) (i : nat) : list nat :=\n"
                "  match l with [] => [] | x :: r => if f x then i :: indices_from f r (S i) else indices_from f r (S i) end.\n")
        r = core.coq_eval_lists(ctx, "cases_C02_%d" % k, pre, [(ident, "indices_from (%s) cases 0" % fn) for ident, fn in defs])
        return {ident: [ids[x] for x in r[ident]] for ident, _ in defs}

    ev = {ident: [] for ident, _ in defs}
    for part in core.parallel(do, list(range(len(shards)))):
        for k_, v in part.items():
            ev[k_] += v
    mism = []
    wf, runerr, mm = set(ev["WF"]), set(ev["RUNERR"]), set(ev["MM"])
    n_decl = n_wf_compiles = n_illformed_explained = marker_errors = 0
    for i, c in enumerate(cases):
        job = {k_: v for k_, v in c["inp"].items() if k_ not in ("yaml", "id")}
        job["flags"] = [n for n in GOFLAG_NAMES if c["fl"][n]]
        if c["kind"] == "run-error":
            # text of a method template's own marker ("found an unimplemented ... case"): bodies are not modelled
            if i not in runerr and "found an" in (c.get("msg") or ""):
                marker_errors += 1
            elif i not in runerr:
                mism.append({"job": job, "which": ["run reported an error for Go, go_run of the model does not"],
                             "message": (c.get("msg") or "")[:300]})
            continue
        n_decl += 1
        if i in mm:
            mism.append({"job": job, "which": ["declarations differ"], "package": c["pkg"], "observed": c["obs"][:60]})
        ce = c.get("compile_error")
        if i in wf and ce in DECL_CLASSES:
            mism.append({"job": job, "which": ["decls_wf = true but the package does not compile: " + ce], "package": c["pkg"],
                         "message": c.get("compile_msg")})
        if i in wf and not ce:
            n_wf_compiles += 1
        if i not in wf and ce:
            n_illformed_explained += 1
    cov = dict(stats, cases=len(cases), declaration_cases=n_decl, option_vectors=len(vecs),
               model_mismatches=len([i for i in mm if cases[i]["kind"] == "decls"]), run_errors_from_template_markers=marker_errors, model_wellformed_and_compiles=n_wf_compiles,
               model_illformed_and_does_not_compile=n_illformed_explained,
               model_illformed_but_compiles=len([i for i, c in enumerate(cases) if c["kind"] == "decls" and i not in wf and not c.get("compile_error")]))
    return {"coverage": cov, "mismatches": mism}
