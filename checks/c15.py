"""C15 — schema transformations have their documented effect and touch nothing else.

Theorems: coq/Props/C15.v over the pass models of coq/Model/Passes.v.  Tie to the code:
correspondence — generated IRs x generated pass lists are run through the real compiler.Passes
(harness/verifh/passes.go); the output IR is compared, inside Coq, with the model (MISMATCH)
and with the documented behaviour Model/Spec15.v (PROPFAIL)."""
import copy
import json
import os

from gen import irgen
from vlib import core, passlib

COQ_TARGETS = ["Props/C15.vo", "Model/Spec15.vo"]
PROPS = "Props/C15.v"
TRUSTED = [
    "hand-written Gallina models of the 19 transformations + visitor (coq/Model/Passes.v); PassesTrail (debug text) and error messages are not modelled or compared",
    "Go in-place mutation modelled functionally; strings.EqualFold / x/text title-casing modelled for ASCII identifiers only",
    "harness printer harness/verifh/ir.go, passes.go (Gallina terms of coq/Model/IR.v)",
]
ASSUMPTIONS = ["identifiers are ASCII", "fields_set_default is never given two keys matching the same field (map-order dependent: covered by C03)"]

KINDS = irgen.C15_PASSES


def gen_case(rng, max_depth, max_passes):
    g = irgen.IRGen(rng, max_depth=max_depth, features={"twins": 0.25})
    schemas = g.schemas()
    n = rng.choice([1, 1, 1, 2, 2, 3, max_passes])
    cur = schemas
    passes = []
    for _ in range(n):
        passes.append(irgen.gen_pass(rng, cur, rng.choice(KINDS), g))
    return {"schemas": schemas, "passes": passes}


def gen_multi_target_case(rng, max_depth):
    """one configured type/field given to several targets (objects whose names differ only in case), then a
    transformation that rewrites references: each target must be rewritten exactly once"""
    import copy
    g = irgen.IRGen(rng, max_depth=max_depth, features={"resolving": True})
    schemas = g.schemas()
    s = rng.choice(schemas)
    structs = [o for o in s["objects"] if o["type"].get("k") == "struct"]
    if not structs:
        s["objects"].append({"name": "Holder", "type": {"k": "struct", "fields": [{"name": "id", "type": {"k": "scalar", "sk": "string"}, "req": True}]}})
        structs = [s["objects"][-1]]
    o = rng.choice(structs)
    twin_name = o["name"].swapcase() if o["name"].swapcase() != o["name"] else o["name"] + "x"
    if all(x["name"] != twin_name for x in s["objects"]):
        s["objects"].append({"name": twin_name, "type": copy.deepcopy(o["type"])})
    others = [x["name"] for x in s["objects"] if x["name"] not in (o["name"], twin_name)] or [o["name"]]
    reft = {"k": "ref", "pkg": s["pkg"], "name": rng.choice(others)}
    shape = rng.choice([reft, {"k": "array", "v": reft}, {"k": "struct", "fields": [{"name": "inner", "type": reft, "req": True}]},
                        {"k": "map", "i": {"k": "scalar", "sk": "string"}, "v": reft}])
    kind = rng.choice(["retype_object", "retype_field", "add_fields"])
    if kind == "retype_object":
        p1 = {"p": kind, "pkg": s["pkg"], "obj": o["name"], "as": shape}
    elif kind == "retype_field" and o["type"]["fields"]:
        p1 = {"p": kind, "pkg": s["pkg"], "obj": o["name"], "fld": rng.choice(o["type"]["fields"])["name"], "as": shape}
    else:
        p1 = {"p": "add_fields", "pkg": s["pkg"], "obj": o["name"], "fields": [{"name": "added", "type": shape, "req": True}]}
    p2 = rng.choice([{"p": "prefix_object_names", "str": "Pre"},
                     {"p": "rename_object", "pkg": s["pkg"], "obj": reft["name"], "to": "Renamed"}])
    return {"schemas": schemas, "passes": [p1, p2]}


def gen_duplicate_then_mutate_case(rng, max_depth):
    """duplicate_object followed by transformations aimed at ONE of the two objects (the copy or the original): the
    other one must stay as it was, at every depth"""
    g = irgen.IRGen(rng, max_depth=max_depth, features={"resolving": True})
    schemas = g.schemas()
    cands = [(s, o) for s in schemas for o in s["objects"] if o["type"].get("k") == "struct" and o["type"].get("fields")]
    if not cands:
        return gen_case(rng, max_depth, 3)
    s, o = rng.choice(cands)
    pkg, name = s["pkg"], o["name"]
    target = rng.choice(["Copy", name])
    f = rng.choice(o["type"]["fields"])["name"]
    nested = [x for x in o["type"]["fields"] if x["type"].get("k") in ("struct", "array", "map", "disj", "inter")]
    passes = [{"p": "duplicate_object", "pkg": pkg, "obj": name, "topkg": pkg, "to": "Copy"}]
    menu = [{"p": "fields_set_required", "refs": [[pkg, target, f]]}, {"p": "fields_set_not_required", "refs": [[pkg, target, f]]},
            {"p": "omit_fields", "refs": [[pkg, target, f]]},
            {"p": "retype_field", "pkg": pkg, "obj": target, "fld": f, "as": {"k": "scalar", "sk": "string"}},
            {"p": "fields_set_default", "defs": [{"ref": [pkg, target, f], "val": {"t": "str", "v": "dflt"}}]},
            {"p": "add_fields", "pkg": pkg, "obj": target, "fields": [{"name": "added", "type": {"k": "scalar", "sk": "bool"}, "req": True}]},
            {"p": "hint_object", "pkg": pkg, "obj": target, "hints": {"h1": {"t": "str", "v": "v"}}},
            {"p": "prefix_object_names", "str": "Pre"}, {"p": "append_comment_objects", "str": "generated"}]
    for _ in range(rng.randint(1, 3)):
        passes.append(rng.choice(menu))
    return {"schemas": schemas, "passes": passes}


def classify(job, k):
    """describe the culprit pass (index k) of a failing case for the known-findings matcher"""
    p = job["passes"][k]
    sig = {"pass": p["p"]}
    objs = irgen.all_objects(job["schemas"])
    if p["p"] == "rename_object":
        exact = any(pk == p["pkg"] and n == p["obj"] for pk, n, _ in objs)
        fold = any(pk == p["pkg"] and n.lower() == p["obj"].lower() for pk, n, _ in objs)
        sig["trait"] = "from-differs-in-case" if (fold and not exact) else "other"
    elif p["p"] == "replace_reference":
        sig["trait"] = "replaced-ref-loses-nullable-default-hints"
    else:
        sig["trait"] = "other"
    return sig


def run(ctx, verdict, replay=None, model_ok=True):
    rng = ctx.rng
    thorough = ctx.tier == "thorough"
    jobs = []
    if replay:
        rp = json.load(open(replay))
        jobs = [rp.get("job") or rp["first_mismatch"]["job"]]
    else:
        cdir = os.path.join(core.VERIF, "corpus", "C15")
        if os.path.isdir(cdir):
            for f in sorted(os.listdir(cdir)):
                jobs.append(json.load(open(os.path.join(cdir, f)))["job"])
        n = 12000 if thorough else 600
        for _ in range(n):
            jobs.append(gen_case(rng, 6 if thorough else 4, 6 if thorough else 4))
        for _ in range(n // 15):
            jobs.append(gen_multi_target_case(rng, 4))
        for _ in range(n // 10):
            jobs.append(gen_duplicate_then_mutate_case(rng, 4))
    binp = core.build_harness(ctx)
    results = passlib.run_jobs(binp, jobs)
    ctx.log("implementation ran: %d cases" % len(results))
    ev = passlib.eval_cases(ctx, "cases_C15", results,
                            [("MM", "case_mismatch"), ("PF", "case_propfail"), ("UM", "case_unmodelled")])
    ctx.log("coq evaluated: mismatch=%d propfail=%d" % (len(ev["MM"]), len(ev["PF"])))

    def first_bad_prefix(i, which):
        """smallest k such that the prefix of k+1 passes already fails"""
        job = jobs[i]
        for k in range(len(job["passes"])):
            sub = dict(job, passes=job["passes"][:k + 1])
            r = passlib.run_jobs(binp, [sub])
            if r[0]["status"] != "OK":
                return k, sub, r[0]
            e = passlib.eval_cases(ctx, "prefix_%d_%d" % (i, k), r, [("X", which)])
            if e["X"]:
                return k, sub, r[0]
        return len(job["passes"]) - 1, job, results[i]

    explained = set()
    budget = 60
    for i in sorted(ev["PF"], key=lambda i: len(json.dumps(jobs[i]))):
        if budget == 0:
            explained.update(ev["PF"])
            break
        budget -= 1
        k, sub, r = first_bad_prefix(i, "case_propfail")
        sig = classify(jobs[i], k)
        verdict.propfail(sig, {"job": sub, "culprit_pass_index": k,
                               "observed_outcome": r.get("outcome", r.get("status"))[:4000],
                               "predicate": "res_eqb schemas_eqb (spec_process passes input) observed = true  (Model/Spec15.v)"})
        explained.add(i)
    fatal = [i for i, r in enumerate(results) if r["status"] != "OK"]
    for i in fatal[:5]:
        verdict.propfail({"pass": "harness", "trait": results[i]["status"]},
                         {"job": jobs[i], "observed_outcome": results[i].get("detail", results[i]["status"])})
    unexplained = [{"job": jobs[i], "observed": results[i]["outcome"][:3000]} for i in ev["MM"] if i not in explained]

    # distribution / non-triviality (measured)
    hist = {}
    distinct = set()
    nontriv = 0
    for j, r in zip(jobs, results):
        for p in j["passes"]:
            hist[p["p"]] = hist.get(p["p"], 0) + 1
        h = core.canon_hash(j)
        if h in distinct or r["status"] != "OK":
            continue
        distinct.add(h)
        nobj = sum(len(s["objects"]) for s in j["schemas"])
        if nobj >= 3 and r["outcome"] != "(Ok %s)" % r["input"]:
            nontriv += 1
    ok_cases = [r for r in results if r["status"] == "OK"]
    cov = {
        "evaluations": len(jobs),
        "distinct_nontrivial": nontriv,
        "rule": "generated IR (1-3 packages, case-colliding object names, nesting depth<=%d) x 1-%d generated transformations (targets exact / different case / absent / other package); distinct by hash of the case; non-trivial = schemas with >=3 objects and an output that differs from the input (some selector matched)" % (6 if thorough else 4, 6 if thorough else 4),
        "samples": [{"passes": jobs[i]["passes"], "packages": [s["pkg"] for s in jobs[i]["schemas"]],
                     "objects": [o["name"] for s in jobs[i]["schemas"] for o in s["objects"]],
                     "outcome_prefix": results[i].get("outcome", "")[:200]} for i in range(min(3, len(jobs)))],
        "pass_histogram": hist,
        "outcome_histogram": {k: sum(1 for r in ok_cases if r["outcome"].startswith("(" + k)) for k in ("Ok", "Err", "Panic")},
        "cases_with_unmodelled_pass": len(ev["UM"]),
        "mismatches_model_vs_impl": len(ev["MM"]),
        "propfails_spec_vs_impl": len(ev["PF"]),
        "traces_validated_against_impl": len(ok_cases) - len(ev["MM"]) - len(ev["UM"]),
    }
    return {"coverage": cov, "unexplained_mismatches": unexplained,
            "search_note": "generated (IR, transformation list) cases; documented-behaviour spec evaluated against the implementation output"}
