"""C06 — each language's generators receive types in the normal form they assume.

Theorems: coq/Props/C06.v over the chain-pass models (coq/Model/PassesChain.v) and the chains
regenerated from internal/jennies/*/jennies.go (coq/Gen/Chains_gen.v).  Tie to the code:
correspondence — generated IRs (arbitrarily nested arrays/maps/unions/structs/enums) through each
language's REAL CompilerPasses(); the normal-form predicates (coq/Model/NF.v) are evaluated in
Coq on the IR the implementation produced, and the output is compared with the model."""
import json
import os
import re

from gen import irgen
from vlib import core, passlib
from tools.fields_of import bad_optional

COQ_TARGETS = ["Props/C06.vo", "Model/Spec06.vo", "Proofs/ChainPresProofs.vo", "Proofs/ChainPhpJavaProofs.vo", "Proofs/ChainPhpInlineNF.vo"]
PROPS = "Props/C06.v"
TRUSTED = [
    "normal-form predicates coq/Model/NF.v (hint payloads are excluded: they keep the original union by design)",
    "chain translator (regex over CompilerPasses() in internal/jennies/*/jennies.go; unknown constructors become PUnknown, which no theorem accepts)",
    "hand-written chain-pass models validated on generated cases; harness printer",
]
ASSUMPTIONS = ["identifiers are ASCII", "inputs on which the chain returns an error or crashes are C04's subject, not judged here"]

LANGS = ["go", "java", "php", "python", "typescript"]
PASS_CTOR = {
    "AnonymousStructsToNamed": "PAnonymousStructsToNamed", "NotRequiredFieldAsNullableType": "PNotRequiredFieldAsNullableType",
    "DisjunctionWithNullToOptional": "PDisjunctionWithNullToOptional", "DisjunctionOfConstantsToEnum": "PDisjunctionOfConstantsToEnum",
    "AnonymousEnumToExplicitType": "PAnonymousEnumToExplicitType", "PrefixEnumValues": "PPrefixEnumValues",
    "FlattenDisjunctions": "PFlattenDisjunctions", "DisjunctionOfAnonymousStructsToExplicit": "PDisjunctionOfAnonymousStructsToExplicit",
    "DisjunctionInferMapping": "PDisjunctionInferMapping", "UndiscriminatedDisjunctionToAny": "PUndiscriminatedDisjunctionToAny",
    "DisjunctionToType": "PDisjunctionToType", "RemoveIntersections": "PRemoveIntersections",
    "SanitizeEnumMemberNames": "PSanitizeEnumMemberNames", "RenameNumericEnumValues": "PRenameNumericEnumValues",
    "InferEntrypoint": "PInferEntrypoint", "Unspec": "PUnspec", "DisjunctionWithConstantToDefault": "PDisjunctionWithConstantToDefault",
    "DataqueryIdentification": "PDataqueryIdentification", "TrimEnumValues": "PTrimEnumValues",
}
KIND_NAMES = {"KindScalar": "scalar", "KindArray": "array", "KindMap": "map", "KindDisjunction": "disjunction", "KindStruct": "struct",
              "KindEnum": "enum", "KindRef": "ref", "KindIntersection": "intersection", "KindConstantRef": "constant_ref",
              "KindComposableSlot": "composable_slot"}


def read_chain(lang):
    src = open(os.path.join(core.REPO, "internal/jennies", {"go": "golang"}.get(lang, lang), "jennies.go")).read()
    m = re.search(r"func \(language \*Language\) CompilerPasses\(\) compiler\.Passes \{(.*?)\n\}", src, re.S)
    if not m:
        return ['PUnknown "no CompilerPasses in %s"' % lang]
    body = m.group(1)
    out = []
    for pm in re.finditer(r"&compiler\.(\w+)\{(.*?)\}(?=,\s*(?:&compiler|\n\t\}))", body, re.S):
        name, args = pm.group(1), pm.group(2)
        if name == "InlineObjectsWithTypes":
            kinds = re.findall(r"ast\.(Kind\w+)", args)
            out.append("PInlineObjectsWithTypes [%s]" % "; ".join('"%s"' % KIND_NAMES.get(k, k) for k in kinds))
        elif name in PASS_CTOR and not args.strip():
            out.append(PASS_CTOR[name])
        else:
            out.append('PUnknown "%s"' % name)
    # anything in the body that is not recognised as a pass literal invalidates the translation
    n_lits = len(re.findall(r"&compiler\.\w+\{", body))
    if n_lits != len(out) or "append(" in body or "if " in body:
        out.append('PUnknown "unrecognised code in CompilerPasses of %s"' % lang)
    return out


def regen(ctx):
    lines = ["(* GENERATED from internal/jennies/*/jennies.go CompilerPasses() — do not edit. *)",
             "From Cog Require Import Model.Passes.", "Local Open Scope string_scope.", ""]
    for lang in LANGS:
        lines.append("Definition chain_%s : list pass :=\n  [%s]." % (lang, ";\n   ".join(read_chain(lang))))
    core.write_if_changed(os.path.join(core.COQ, "Gen", "Chains_gen.v"), "\n".join(lines) + "\n")


# the hypothesis of the chain theorems (Props/C06.v nf_<lang>_partial), evaluated on the input of each case
TAME_DEF = """Definition case_tame (c : nfcase) : bool :=
  let '(lang, (input, _, outcome, _)) := c in
  match outcome with
  | Ok _ => if String.eqb lang "go" then tame_go input else if String.eqb lang "python" then tame_python input
            else if String.eqb lang "java" then tame_java_full input else if String.eqb lang "php" then tame_php_inl input
            else if String.eqb lang "typescript" then true else false
  | _ => false
  end.
"""


def nested_case(rng, depth, lang):
    feats = {"resolving": True, "acyclic_aliases": True, "twins": 0.35}
    if rng.random() < 0.35:
        # inputs inside the fragment of the chain theorems (Props/C06.v nf_<lang>_partial): the real chain's
        # output must have NO violation there, known findings or not
        feats = {"resolving": True, "acyclic_aliases": True, "chain": True, "tame": True}
    g = irgen.IRGen(rng, max_depth=depth, features=feats)
    return {"schemas": g.schemas(), "passes": [], "lang": lang}


def offenders_of(ctx, tag, lang, outcome):
    """[(pkg, object name, violation)] for the IR a chain produced"""
    path = os.path.join(ctx.scratch, "nfo_%s.v" % tag)
    with open(path, "w") as f:
        f.write(passlib.PREAMBLE % "Model.Spec06")
        f.write('Eval vm_compute in (match %s with Ok out => nf_offenders "%s" out | _ => [] end).\n' % (outcome, lang))
    rc, out = core.coqc_file(path)
    return re.findall(r'\("([^"]*)", "([^"]*)", "([^"]*)"\)', re.sub(r"\s+", " ", out))


def object_text(outcome, pkg, name):
    """the printed object `name` of package `pkg` (objects of the same name exist in several packages; the SelfRef
    printed at the end of an object may differ from its package/name; a self reference `(TRef A0 "p" "n")` is
    not preceded by `) `)"""
    k = outcome.find('(mkSchema "%s" ' % pkg)
    if k < 0:
        return ""
    e = outcome.find('(mkSchema "', k + 1)
    block = outcome[k:e if e > 0 else len(outcome)]
    m = re.search(r'\("%s", \(mkObject "%s".*?\) "[^"]*" "[^"]*"\)\)' % (re.escape(name), re.escape(name)), block)
    return m.group(0) if m else ""


def _walk_types(t):
    yield t
    k = t.get("k")
    subs = []
    if k == "array":
        subs = [t.get("v")]
    elif k == "map":
        subs = [t.get("i"), t.get("v")]
    elif k == "struct":
        subs = [f["type"] for f in t.get("fields", [])]
    elif k in ("disj", "inter"):
        subs = t.get("branches", [])
    elif k == "enum":
        subs = [v["type"] for v in t.get("values", [])]
    for x in subs:
        if x:
            yield from _walk_types(x)


def input_features(job):
    """shapes of the input the chain passes are known not to handle (root causes of known findings)"""
    feats = set()
    for s_ in job["schemas"]:
        for o in s_["objects"]:
            for t in _walk_types(o["type"]):
                if t.get("k") == "disj":
                    for b in t.get("branches", []):
                        if any(x.get("k") == "disj" for x in _walk_types(b)):
                            feats.add("union-inside-union-branch")
                        if any(x.get("k") == "struct" for x in _walk_types(b)):
                            feats.add("struct-inside-union-branch")
                    bs = t.get("branches", [])
                    if bs and all(b.get("k") == "scalar" for b in bs) and len({b.get("sk") for b in bs}) == 1:
                        feats.add("single-kind-scalar-union")
                    if len(bs) != 2 and any(b.get("k") == "scalar" and b.get("sk") == "null" for b in bs):
                        feats.add("null-in-wide-union")      # = null_in_wide_union of Proofs/ChainPresProofs.v
                if t.get("k") == "inter":
                    if any(x.get("k") in ("struct", "disj") for b in t.get("branches", []) for x in _walk_types(b)):
                        feats.add("struct-or-union-inside-intersection")
    return feats


def cause_of(lang, violation, objtext, name, input_names, input_alias_names, feats, intext=""):
    """root cause of a normal-form violation, read off the input's shape and the offending object
    (this is what identifies a known finding)"""
    created = name not in input_names
    if violation in ("union-remains", "T-or-null-union"):
        if "union-inside-union-branch" in feats:
            return "union-inside-union-branch"
        if "struct-or-union-inside-intersection" in feats:
            return "union-inside-intersection"
        if violation == "T-or-null-union" and "null-in-wide-union" in feats:
            return "wide-union-with-null-shrunk-after-the-null-pass"
        if created:
            return "union-inside-object-created-by-chain"
        return "other"
    if violation == "anonymous-struct":
        if created or "struct-inside-union-branch" in feats:
            return "struct-inside-object-created-by-chain"
        return "other"
    if violation == "optional-field-not-nullable":
        if re.search(r'mkField "[^"]*" \[[^\]]*\] \(TScalar A0 KAny DNil \[\]\) false', objtext):
            return "any-from-undiscriminated-union"
        # RemoveIntersections rebuilds a field that referred to a collapsed alias / an alias of an array as a fresh
        # reference / array: not nullable whatever the field was.  (A field that is a reference or array in both the
        # input and the output but lost its nullability can only come from there in the Java chain.)
        java_rebuilt = any(re.match(r'\((?:TRef|TArray) (?:A0|\{\| nullable := false)', ty) for _, ty in bad_optional(objtext))
        if lang == "java" and (name in input_alias_names or java_rebuilt):
            return "field-rewritten-by-remove-intersections"
        # a field that was a union in the input and is a bare, non-nullable scalar now
        for fm in re.finditer(r'mkField ("[^"]*") \[[^\]]*\] \(TScalar (?:A0|\{\| nullable := false[^|]*\|\}) K\w+ DNil \[\]\) false', objtext):
            if re.search(r'mkField %s \[[^\]]*\] \(TDisj ' % re.escape(fm.group(1)), intext):
                return "single-kind-scalar-union-collapsed"
        if "single-kind-scalar-union" in feats and re.search(r'mkField "[^"]*" \[[^\]]*\] \(TScalar (A0|\{\| nullable := false[^|]*\|\}) K\w+ DNil \[\]\) false', objtext):
            return "single-kind-scalar-union-collapsed"
        if created:
            return "field-of-object-created-by-chain"
        if lang == "php":
            return "reference-inlined-by-inline-objects-with-types"
        return "other"
    return "other"


def violations_of(ctx, tag, lang, outcome):
    path = os.path.join(ctx.scratch, "nfv_%s.v" % tag)
    with open(path, "w") as f:
        f.write(passlib.PREAMBLE % "Model.Spec06")
        f.write('Definition V := Eval vm_compute in (match %s with Ok out => nf_violations "%s" out | _ => [] end).\nPrint V.\n' % (outcome, lang))
    rc, out = core.coqc_file(path)
    return re.findall(r'"([a-zA-Z-]+)"', re.sub(r"\s+", " ", out).split(" : list", 1)[0])


def run(ctx, verdict, replay=None, model_ok=True):
    rng = ctx.rng
    thorough = ctx.tier == "thorough"
    jobs = []
    if replay:
        rp = json.load(open(replay))
        jobs = [rp.get("job") or rp["first_mismatch"]["job"]]
    else:
        cdir = os.path.join(core.VERIF, "corpus", "C06")
        if os.path.isdir(cdir):
            for f in sorted(os.listdir(cdir)):
                jobs.append(json.load(open(os.path.join(cdir, f)))["job"])
        n = 1200 if thorough else 70
        for lang in LANGS:
            for i in range(n):
                jobs.append(nested_case(rng, (7 if thorough else 5) if i % 3 == 0 else 4, lang))
    binp = core.build_harness(ctx)
    results = passlib.run_jobs(binp, jobs)
    for j, r in zip(jobs, results):
        if r["status"] == "OK":
            r["input"], r["case_lang"] = r["input"], j["lang"]
    ctx.log("implementation ran: %d chain runs" % len(results))
    # cases are (lang, pcase)
    idx = [i for i, r in enumerate(results) if r["status"] == "OK"]
    shard = 100
    shards = [idx[i:i + shard] for i in range(0, len(idx), shard)]

    def do(k):
        ids = shards[k]
        cases = "[" + ";\n".join('("%s", %s)' % (jobs[i]["lang"], passlib.case_term(results[i])) for i in ids) + "]"
        if getattr(ctx, "obligation", None) is None:
            pre = passlib.PREAMBLE % "Model.Spec06 Proofs.ChainPresProofs Proofs.ChainPhpJavaProofs Proofs.ChainPhpInlineNF" + TAME_DEF
        else:
            # a proof no longer checks (reported as the violation): the theorem hypotheses cannot be evaluated, the
            # search for a failing input goes on with the model and the normal-form predicates alone
            pre = passlib.PREAMBLE % "Model.Spec06" + "Definition case_tame (c : nfcase) : bool := false.\n"
        pre += "Definition cases : list nfcase :=\n%s.\n" % cases
        r = core.coq_eval_lists(ctx, "cases_C06_%d" % k, pre, [
            ("NF", "indices case_nf_bad cases"), ("MM", "indices case_chain_mismatch cases"),
            ("UM", "indices case_chain_unmodelled cases"), ("FL", "indices case_chain_failed cases"),
            ("AL", "indices (fun c => andb (case_chain_mismatch c) (case_chain_alias c)) cases"),
            ("TM", "indices case_tame cases"), ("TV", "indices (fun c => andb (case_tame c) (case_nf_bad c)) cases")])
        return {kk: [ids[x] for x in v] for kk, v in r.items()}

    parts = core.parallel(do, list(range(len(shards))))
    ev = {k: sorted(x for p in parts for x in p[k]) for k in ("NF", "MM", "UM", "FL", "AL", "TM", "TV")}
    ctx.log("coq evaluated: nf_bad=%d mismatch=%d (pointer-sharing-sensitive: %d) unmodelled=%d chain_failed=%d" % (len(ev["NF"]), len(ev["MM"]), len(ev["AL"]), len(ev["UM"]), len(ev["FL"])) + " tame=%d tame_and_violating=%d" % (len(ev["TM"]), len(ev["TV"])))
    explained = set()
    budget = 40
    for i in sorted(ev["NF"], key=lambda i: len(json.dumps(jobs[i]))):
        if budget == 0:
            break
        budget -= 1
        input_names = {o["name"] for s_ in jobs[i]["schemas"] for o in s_["objects"]}
        alias_names = {o["name"] for s_ in jobs[i]["schemas"] for o in s_["objects"] if o["type"]["k"] == "ref"}
        feats = input_features(jobs[i])
        offs = offenders_of(ctx, str(i), jobs[i]["lang"], results[i]["outcome"]) or \
            [("?", "?", v) for v in violations_of(ctx, str(i), jobs[i]["lang"], results[i]["outcome"])] or [("?", "?", "unknown")]
        for pkg, name, v in offs:
            cause = cause_of(jobs[i]["lang"], v, object_text(results[i]["outcome"], pkg, name), name, input_names, alias_names, feats,
                             object_text(results[i]["input"], pkg, name))
            verdict.propfail({"lang": jobs[i]["lang"], "violation": v, "cause": cause},
                             {"job": jobs[i], "offending_object": "%s.%s" % (pkg, name), "observed_outcome": results[i]["outcome"][:5000],
                              "predicate": 'nf_violations "%s" (output of the real chain) = []  (Model/NF.v)' % jobs[i]["lang"]})
        explained.add(i)
    # inside the proved fragment nothing is a known finding
    for i in ev["TV"][:5]:
        path = core.write_replay(ctx, "failing-input", {"signature": {"lang": jobs[i]["lang"], "violation": "inside-tame-fragment", "cause": "theorem-hypothesis-holds"},
                                                       "job": jobs[i], "observed_outcome": results[i]["outcome"][:5000],
                                                       "predicate": "tame_<lang> input = true -> nf_violations lang (real chain output) = []  (Props/C06.v nf_<lang>_partial)"})
        verdict.violations.append((path, ""))
        ctx.log("normal-form violation INSIDE the proved fragment (tame input): %s" % jobs[i]["lang"])
    explained = set(ev["AL"])   # pointer-sharing-sensitive sequences: the functional model does not decide them
    unexplained = [{"job": jobs[i], "observed": results[i]["outcome"][:3000]} for i in ev["MM"] if i not in explained]
    langs = {}
    distinct, nontriv = set(), 0
    for i in idx:
        langs[jobs[i]["lang"]] = langs.get(jobs[i]["lang"], 0) + 1
        h = core.canon_hash(jobs[i])
        if h in distinct:
            continue
        distinct.add(h)
        inp = results[i]["input"]
        # a construct the chain must rewrite, nested at depth >= 2
        if re.search(r"T(Array|Map|Disj)[^;]{0,400}T(Disj|Struct|Enum)", inp) and i not in set(ev["FL"]):
            nontriv += 1
    cov = {
        "evaluations": len(jobs),
        "distinct_nontrivial": nontriv,
        "rule": "generated resolving IRs (depth 4-%d: unions under arrays under union branches, structs under maps under arrays, enums under intersections, aliases) through each of the 5 real language chains; distinct by hash; non-trivial = the input contains a union/struct/enum nested below an array/map/union and the chain succeeded" % (7 if thorough else 5),
        "samples": [{"lang": jobs[i]["lang"], "objects": [o["name"] for s in jobs[i]["schemas"] for o in s["objects"]],
                     "outcome_prefix": results[i]["outcome"][:200]} for i in idx[:3]],
        "language_histogram": langs,
        "chain_runs_that_failed_or_crashed_not_judged_here": len(ev["FL"]) + (len(results) - len(idx)),
        "cases_with_unmodelled_pass": len(ev["UM"]),
        "mismatches_model_vs_impl": len(ev["MM"]),
        "mismatches_on_pointer_sharing_sensitive_sequences_not_judged": len(ev["AL"]),
        "nf_violation_cases": len(ev["NF"]),
        "cases_inside_the_proved_fragment_tame": len(ev["TM"]),
        "violations_inside_the_proved_fragment": len(ev["TV"]),
        "traces_validated_against_impl": len(idx) - len(ev["MM"]) - len(ev["UM"]),
    }
    return {"coverage": cov, "unexplained_mismatches": unexplained,
            "search_note": "generated nested IRs through the real language chains; normal-form predicates evaluated on the output"}
