"""C13 — the generated Go Equals is an equivalence matching equality of the encoded values.

Theorems: coq/Props/C13.v over the model of templates/types/struct_equality_method.tmpl
(coq/Model/GoSemEquals.v) — reflexivity in full; symmetry, transitivity, "Equals => equal encodings
modulo empty collections" and "a difference in the encoding is detected" refuted by the map
comparison defect and proved under keys_aligned; "equal encodings => Equals" refuted (time.Time
compared with `!=`, int/float unions).
Tie to the code: correspondence.  Construct-grammar schemas are rendered as JSON Schema / OpenAPI /
CUE, the real cog (overlay-built from the working tree) generates Go, a driver compiled against the
generated packages decodes document triples (std and strict decoder) and prints the full Equals
matrix and every value's json.Marshal.  Inside Coq the model's prediction is compared with that
output (MISMATCH) and the algebraic laws are evaluated on the real output alone (PROPFAIL)."""
import json
import os
import re

from gen import srcgen
from vlib import core, gencode

COQ_TARGETS = ["Props/C13.vo", "Model/GoSemChecks.vo"]
PROPS = "Props/C13.v"
TRUSTED = [
    "hand-written Gallina model of the Go that cog prints (coq/Model/GoSem*.v): encoding/json semantics, time.Time, reflect.DeepEqual on decoded `any` are modelled from their documentation and validated only on the generated cases",
    "the fragment is explicit (Model/GoSemBase.v header; ctx_supported): bytes, intersections, composable slots, nullable object types, references to constants, zone offsets that are not whole hours are `Unmodelled` and skipped",
    "harness printer harness/verifh_gen (Gallina IR terms), driver drivers/go/main.go (outcome enums, json.Marshal output, Equals matrix), gen/srcgen.py renderers",
    "numbers within 15 significant digits (float32: 6), integers within 2^53; ASCII case folding; documents without duplicate member names for the theorems (duplicates with same-typed scalar values are exercised by the correspondence)",
]
ASSUMPTIONS = [
    "values are those obtained by decoding JSON documents (wt); a disjunction struct holds at most one branch",
    "TZ=UTC for the driver (time.Local == UTC but a distinct *Location)",
]

EVAL_DEFS = [("UNM", "case_unmodelled"), ("MM_STD", "mm_std"), ("MM_STRICT", "mm_strict"), ("MM_EQ", "mm_equals"),
             ("MM_WT", "mm_wt"), ("MM_SPEC", "mm_spec"),
             ("PF_REFL", "pf_refl"), ("PF_SYM", "pf_sym"), ("PF_TRANS", "pf_trans"), ("PF_ENC_EQ", "pf_enc_eq"),
             ("PF_EQ_ENC", "pf_eq_enc"), ("PF_PANIC", "pf_panic"), ("BY_MAPKEYS", "all_by_map_keys")]

TS = re.compile(r"^\d{4}-\d\d-\d\dT\d\d:\d\d:\d\d(\.\d+)?(Z|[+-]\d\d:\d\d)$")


def triples_for(rng, schema, defname, n):
    """document triples aimed at the laws: single-leaf mutants, empty/absent variants, the same
    document twice, same instant in two zone notations"""
    dg = srcgen.DocGen(rng, schema)
    out = []
    for _ in range(n):
        a = dg.valid(defname)
        kind = rng.choice(["mutants", "mutants", "empties", "twice", "time", "independent", "mapkeys", "mapkeys"])
        b = c = None
        if kind == "mutants":
            m = dg.mutate_leaf(a, defname)
            if m:
                b = m[0]
                m2 = dg.mutate_leaf(b, defname)
                c = m2[0] if m2 else a
        elif kind == "empties":
            b = dg.empty_variant(a, defname)
            c = dg.empty_variant(b, defname) if b is not None else None
        elif kind == "twice":
            b = a
            m = dg.mutate_leaf(a, defname)
            c = m[0] if m else None
        elif kind == "time":
            b = dg.time_variant(a, defname)
            c = a
        elif kind == "mapkeys":
            b = dg.map_key_variant(a, defname)
            c = dg.map_key_variant(b, defname) if b is not None else None
        if b is None:
            b = dg.valid(defname)
            kind = "independent"
        if c is None:
            c = dg.valid(defname)
        docs = [a, b, c]
        if rng.random() < 0.08:
            docs = [srcgen.stress_doc(rng, d) for d in docs]
            kind += "+stress"
        out.append((docs, kind))
    return out


def first_doc_difference(a, b, path=()):
    """first position where two documents differ -> (path, a_leaf, b_leaf)"""
    if isinstance(a, dict) and isinstance(b, dict):
        for k in list(a) + [k for k in b if k not in a]:
            if k not in a or k not in b:
                return path + (k,), a.get(k, "<absent>"), b.get(k, "<absent>")
            d = first_doc_difference(a[k], b[k], path + (k,))
            if d:
                return d
        return None
    if isinstance(a, list) and isinstance(b, list):
        if len(a) != len(b):
            return path, "<len %d>" % len(a), "<len %d>" % len(b)
        for i, (x, y) in enumerate(zip(a, b)):
            d = first_doc_difference(x, y, path + (i,))
            if d:
                return d
        return None
    if srcgen.json_same(a, b) and srcgen.dumps(a) == srcgen.dumps(b):
        return None
    return path, a, b


def all_doc_differences(a, b, path=()):
    """every leaf position where two documents differ, member names folded the way encoding/json matches
    them (case-insensitively), an absent member and an explicit null not distinguished"""
    if isinstance(a, srcgen.DupObj):
        a = dict(a.pairs)          # the last duplicate wins
    if isinstance(b, srcgen.DupObj):
        b = dict(b.pairs)
    if isinstance(a, dict) and isinstance(b, dict):
        fa, fb = {k.lower(): v for k, v in a.items()}, {k.lower(): v for k, v in b.items()}
        out = []
        for k in list(fa) + [k for k in fb if k not in fa]:
            x, y = fa.get(k), fb.get(k)
            if x is None and y is None:
                continue
            out += all_doc_differences(x, y, path + (k,))
        return out
    if isinstance(a, list) and isinstance(b, list) and len(a) == len(b):
        out = []
        for i, (x, y) in enumerate(zip(a, b)):
            out += all_doc_differences(x, y, path + (i,))
        return out
    if srcgen.json_same(a, b) and srcgen.dumps(a) == srcgen.dumps(b):
        return []
    return [(path, a, b)]


def keysets_differ(a, b):
    """two encodings contain, at corresponding positions, objects of the same size with different
    key sets (what the generated map comparison cannot see)"""
    if isinstance(a, dict) and isinstance(b, dict):
        if len(a) == len(b) and set(a) != set(b):
            return True
        return any(keysets_differ(a[k], b[k]) for k in a if k in b)
    if isinstance(a, list) and isinstance(b, list):
        return any(keysets_differ(x, y) for x, y in zip(a, b))
    return False


def _emptyish(j):
    return j is None or j == [] or j == {}


def erase_empty(j):
    """Model/Json.v erase_empty: members that are null / an empty collection (after erasing inside) are dropped"""
    if isinstance(j, list):
        return [None if _emptyish(y) else y for y in (erase_empty(x) for x in j)]
    if isinstance(j, dict):
        out = {}
        for k, v in j.items():
            v = erase_empty(v)
            if not _emptyish(v):
                out[k] = v
        return out
    return j


def same_mod_empty(a, b):
    """Model/Json.v json_eq_mod_empty (the comparison of the law equals_implies_encode_eq_mod_empty)"""
    a, b = erase_empty(a), erase_empty(b)
    return srcgen.json_same(None if _emptyish(a) else a, None if _emptyish(b) else b)


def map_keys_heuristic(result):
    """every pair that breaks symmetry / equals_implies_encode_eq_mod_empty has, somewhere at corresponding
    positions of the two encodings, maps of one size with different key sets: the root cause read off the
    observed encodings alone (used whether or not the case is modelled)"""
    encs = [x["enc"] if x["std"] == "ok" else None for x in result["res"]] + \
           [x["senc"] if x["strict"] == "ok" else None for x in result["res"]]
    eq = result["eq"]
    n = len(encs)
    seen = False
    for i in range(n):
        for j in range(n):
            if encs[i] is None or encs[j] is None:
                continue
            odd = (eq[i][j] != eq[j][i]) or (eq[i][j] == "t" and not same_mod_empty(encs[i], encs[j]))
            if odd and not keysets_differ(encs[i], encs[j]):
                return False
            seen = seen or odd
    return seen


ODD_OFFSET = re.compile(r"\d\d:\d\d:\d\d(\.\d+)?[+-]\d\d:(?!00)\d\d\"")


def classify_enc_eq(job, result):
    """why do two values with equal encodings compare unequal?  One ROOT cause per failing pair, by priority:
      1. the (shared) encoding holds a date-time whose zone offset is not a whole hour: every decode allocates a
         fresh *time.Location, so the values differ whatever else the inputs do (even the same document twice);
      2. the input documents write one instant in two zone notations (Z / +00:00);
      3. the input documents write one number as an integer and as a float literal (union branch chosen by literal);
      4. otherwise `other` (differences such as an absent vs null member cannot explain an Equals = false).
    Returns the sorted list of distinct causes over the failing pairs."""
    docs = job["pydocs"]
    n = len(docs)
    encs = [x["enc"] if x["std"] == "ok" else None for x in result["res"]] + \
           [x["senc"] if x["strict"] == "ok" else None for x in result["res"]]
    causes = set()
    for i in range(len(encs)):
        for j in range(len(encs)):
            if encs[i] is None or encs[j] is None or result["eq"][i][j] != "f" or not srcgen.json_same(encs[i], encs[j]):
                continue
            if ODD_OFFSET.search(srcgen.dumps(encs[i])):
                causes.add("datetime-offset-not-whole-hour")
                continue
            a, b = docs[i % n], docs[j % n]
            try:
                ds = all_doc_differences(a, b)
            except Exception:
                ds = []
            if any(isinstance(d[1], str) and isinstance(d[2], str) and TS.match(d[1]) and TS.match(d[2]) for d in ds):
                causes.add("datetime-zone-notation")
            elif any(_is_num(d[1]) and _is_num(d[2]) and srcgen.Decimal(d[1]) == srcgen.Decimal(d[2]) for d in ds):
                causes.add("number-literal-selects-other-union-branch")
            elif not ds and re.search(r"\d{4}-\d\d-\d\dT", srcgen.dumps(a)):
                causes.add("datetime")
            else:
                causes.add("other")
    return sorted(causes) or ["other"]


def _is_num(x):
    return isinstance(x, (int, srcgen.Decimal)) and not isinstance(x, bool)


# ---------------------------------------------------------------------------------------------------------
# composable slots (variants.Dataquery): outside the Coq model; the laws are evaluated on the REAL Equals
# matrix / encodings.  A slot cannot be written in a schema language: a JSON Schema member is retyped by a
# `retype_field` compiler pass of the pipeline configuration, the `variant_dataquery_field_unmarshal` template
# block is supplied through `overrides_templates`, and the `cog` runtime (runtime.go, variants) committed under
# testdata/generated/cog of the repository is added to the module.
SLOT_UNMARSHAL_BLOCK = """{{- define "variant_dataquery_field_unmarshal" }}
	{{- $cog := importPkg "cog" }}
	if fields["{{ .Field.Name }}"] != nil && string(fields["{{ .Field.Name }}"]) != "null" {
		dataquery, err := {{ $cog }}.UnmarshalDataquery(fields["{{ .Field.Name }}"], "")
		if err != nil {
			return err
		}
		resource.{{ .Field.Name|formatFieldName }} = dataquery
	}
{{- end }}
"""


def slot_scenario(ctx, verdict, n_schemas=3, replays=None):
    """replays: replay jobs of this scenario (meta kind composable-slot): their schema text and documents are used
    instead of generated ones"""
    rng = ctx.rng
    odir = os.path.join(ctx.scratch, "c13slot_tmpl")
    os.makedirs(odir, exist_ok=True)
    with open(os.path.join(odir, "dataquery_unmarshal.tmpl"), "w") as f:
        f.write(SLOT_UNMARSHAL_BLOCK)
    go_opts = dict(gencode.GO_OPTS_DEFAULT, overrides_templates=[odir])
    camp = gencode.Campaign(ctx, "c13slot", go_opts=go_opts)
    plan = []
    for k in range(len(replays) if replays else n_schemas):
        pkg = "q%03d" % k
        extra = rng.choice([[], [("size", {"type": "integer"})], [("tags", {"type": "array", "items": {"type": "string"}})]])
        slot_required = False        # an unset REQUIRED slot makes the generated Equals call a nil interface
        props = {"name": {"type": "string"}, "target": {"type": "object"}}
        props.update(dict(extra))
        schema = {"$schema": "http://json-schema.org/draft-07/schema#", "$ref": "#/definitions/Root",
                  "definitions": {"Root": {"type": "object", "properties": props,
                                           "required": ["name"] + (["target"] if slot_required else [])}}}
        text = json.dumps(schema, indent=1)
        if replays:
            text = replays[k]["schema_text"]
            extra = [(n_, None) for n_ in ("size", "tags") if '"%s"' % n_ in text]
        sid = camp.add_schema_text(pkg, "jsonschema", text)
        passes = os.path.join(camp.batch.in_dir, pkg + "_passes.yaml")
        with open(passes, "w") as f:
            f.write("passes:\n  - retype_field:\n      field: %s.Root.target\n      as:\n        kind: composable_slot\n"
                    "        composable_slot:\n          variant: dataquery\n" % pkg)
        cfg = camp.batch.schemas[sid][3]
        with open(cfg, "a") as f:
            f.write("transformations:\n  schemas: ['%s']\n" % passes)
        plan.append((sid, [k_ for k_, _ in extra]))
    camp.batch.generate()
    rt = os.path.join(core.REPO, "testdata", "generated", "cog")
    extra_files = {}
    for rel in ("runtime.go", os.path.join("variants", "variants.go")):
        src = open(os.path.join(rt, rel)).read().replace("github.com/grafana/cog/testdata/generated", camp.batch.package_root)
        extra_files[os.path.join("cog", rel)] = src
    camp.batch.build_driver(extra_files=extra_files)
    ok = set(camp.batch.ok_sids())
    stats = {"schemas": len(plan), "generated_and_compiled": len(ok), "jobs": 0, "pairs": 0,
             "gen_errors": [repr(camp.batch.gen[s_])[:300] for s_, _ in plan if camp.batch.gen[s_].status != "OK"][:2],
             "compile_errors": [str(v)[:300] for v in camp.batch.compile_errors.values()][:2]}
    for k, (sid, extra) in enumerate(plan):
        if sid not in ok:
            continue
        if replays:
            camp.add_job(sid, "Root", [srcgen.loads(d) for d in replays[k]["docs"]], meta={"kind": "composable-slot"})
            continue
        for _ in range(3):
            name = rng.choice(["deploys", "a", ""])
            q1, q2 = rng.sample(["up", "down", "rate(x[5m])", ""], 2)
            base = {"name": name}
            if "size" in extra:
                base["size"] = rng.randint(0, 5)
            if "tags" in extra:
                base["tags"] = rng.choice([[], ["x"], ["x", "y"]])
            docs = [dict(base), dict(base, target={"expr": q1}), dict(base, target={"expr": q2}), dict(base, target=None),
                    dict(base, target={"expr": q1, "refId": "A"})]
            rng.shuffle(docs)
            camp.add_job(sid, "Root", docs, meta={"kind": "composable-slot"})
    for j in camp.jobs:
        j["ops"] = ["std", "equals"]
    camp.run()
    for i in camp.live():
        r = camp.results[i]
        stats["jobs"] += 1
        n = len(camp.jobs[i]["docs"])
        encs = [x["enc"] if x["std"] == "ok" else None for x in r["res"]]
        eq = r["eq"]
        bad = {}
        for a in range(n):
            for b in range(n):
                if encs[a] is None or encs[b] is None:
                    continue
                stats["pairs"] += 1
                if eq[a][b] == "p":
                    bad.setdefault("no_panic", (a, b))
                elif eq[a][b] != eq[b][a]:
                    bad.setdefault("symmetric", (a, b))
                elif eq[a][b] == "t" and not same_mod_empty(encs[a], encs[b]):
                    bad.setdefault("equals_implies_encode_eq_mod_empty", (a, b))
                elif eq[a][b] == "f" and srcgen.json_same(encs[a], encs[b]):
                    bad.setdefault("encode_eq_implies_equals", (a, b))
            if encs[a] is not None and eq[a][a] == "f":
                bad.setdefault("reflexive", (a, a))
        for law, pair in bad.items():
            verdict.propfail({"law": law, "cause": "composable-slot"},
                             {"job": camp.job_payload(i), "observed": r, "pair": list(pair),
                              "predicate": "the law evaluated on the observed Equals matrix / encodings (composable slots are outside the Coq model)"})
    return stats


def run(ctx, verdict, replay=None, model_ok=True):
    rng = ctx.rng
    thorough = ctx.tier == "thorough"
    if replay:
        rj = gencode.Campaign.replay_jobs(replay)
        if rj and (rj[0].get("meta") or {}).get("kind") == "composable-slot":
            stats = slot_scenario(ctx, verdict, replays=rj)
            return {"coverage": {"composable_slot_scenario": stats}, "unexplained_mismatches": [],
                    "search_note": "replay of a composable-slot case"}
    camp = gencode.Campaign(ctx, "c13")
    plan = []       # (sid, schema or None)
    replay_jobs = []
    if replay:
        for k, job in enumerate(gencode.Campaign.replay_jobs(replay)):
            sid = camp.add_schema_text(job["pkg"], job["fmt"], job["schema_text"])
            replay_jobs.append((sid, job))
    else:
        cdir = os.path.join(core.VERIF, "corpus", "C13")
        if os.path.isdir(cdir):
            for f in sorted(os.listdir(cdir)):
                job = json.load(open(os.path.join(cdir, f)))["job"]
                job = dict(job, pkg="k%03d" % len(replay_jobs))
                job["schema_text"] = re.sub(r"(?m)^package \w+", "package " + job["pkg"], job["schema_text"])
                sid = camp.add_schema_text(job["pkg"], job["fmt"], job["schema_text"])
                replay_jobs.append((sid, job))
        per_fmt = 220 if thorough else 22
        k = 0
        for fmt in srcgen.FORMATS:
            for _ in range(per_fmt):
                s = srcgen.SrcGen(rng, max_depth=4 if thorough else 3, fmt=fmt,
                                  features=srcgen.ALL_FEATURES + srcgen.EXTRA_FEATURES).schema("s%03d" % k)
                k += 1
                camp.add_schema(s, fmt)
                plan.append((s["pkg"], s))
    batch = camp.prepare()
    ctx.log("cog ran on %d schemas: %d generated, %d rejected by cog, %d do not compile, %d needed an unused import removed"
            % (len(batch.schemas), len([g for g in batch.gen.values() if g.status == "OK"]),
               len([g for g in batch.gen.values() if g.status != "OK"]), len(batch.compile_errors),
               len(batch.import_fixups)))
    ok = set(batch.ok_sids())
    for sid, job in replay_jobs:
        if sid in ok:
            camp.add_job(sid, job["type"], [srcgen.loads(d) for d in job["docs"]], meta=job.get("meta"))
    ntr = 45 if thorough else 22
    for sid, s in plan:
        if sid not in ok:
            continue
        names = {o["name"] for o in batch.struct_objects(sid)}
        targets = [d["name"] for d in s["defs"] if d["t"]["k"] == "struct" and d["name"] in names]
        for tname in targets:
            n = ntr if tname == s["root"] else max(2, ntr // 6)
            for docs, kind in triples_for(rng, s, tname, n):
                camp.add_job(sid, tname, docs, meta={"kind": kind})
    camp.run()
    live = camp.live()
    ctx.log("driver ran %d jobs (%d survived)" % (len(camp.jobs), len(live)))
    ev = camp.evaluate("cases_C13", "Model.GoSemChecks", EVAL_DEFS)
    ctx.log("coq evaluated: " + " ".join("%s=%d" % (k, len(v)) for k, v in ev.items()))

    # ---- property failures on the real output
    by_map = set(ev["BY_MAPKEYS"])
    unm0 = set(ev["UNM"])
    laws = [("PF_REFL", "reflexive"), ("PF_SYM", "symmetric"), ("PF_TRANS", "transitive"),
            ("PF_EQ_ENC", "equals_implies_encode_eq_mod_empty"), ("PF_ENC_EQ", "encode_eq_implies_equals"),
            ("PF_PANIC", "no_panic")]
    pf_all = set()
    budget = 40
    # a panic inside Equals itself (strict-decoder panics belong to C08/C01)
    ev["PF_PANIC"] = [i for i in live if any(c == "p" for row in camp.results[i]["eq"] for c in row)]
    for key, law in laws:
        for i in sorted(ev[key], key=lambda i: len(json.dumps(camp.jobs[i]["docs"]))):
            pf_all.add(i)
            if budget <= 0:
                continue
            job = camp.jobs[i]
            if law in ("symmetric", "transitive", "equals_implies_encode_eq_mod_empty"):
                causes = ["map-key-sets-differ" if (i in by_map or map_keys_heuristic(camp.results[i])) else "other"]
            elif law == "encode_eq_implies_equals":
                causes = classify_enc_eq(job, camp.results[i])
            else:
                causes = ["other"]
            for cause in causes:
                st = verdict.propfail({"law": law, "cause": cause},
                                      {"job": camp.job_payload(i), "observed": camp.results[i],
                                       "predicate": "Model/GoSemChecks.v %s = true on the observed Equals matrix / encodings" % key.lower()})
                if st == "violation":
                    budget -= 1
    mm = sorted(set(ev["MM_STD"]) | set(ev["MM_STRICT"]) | set(ev["MM_EQ"]) | set(ev["MM_WT"]) | set(ev["MM_SPEC"]))
    dead = [i for i, r in enumerate(camp.results) if r is None]
    for i in dead[:3]:
        verdict.propfail({"law": "no_panic", "cause": "driver-process-died"},
                         {"job": camp.job_payload(i), "observed": "driver process died (fatal error) or timed out"})
    unexplained = [{"job": camp.job_payload(i), "observed": camp.results[i],
                    "which": [k for k in ("MM_STD", "MM_STRICT", "MM_EQ", "MM_WT", "MM_SPEC") if i in ev[k]]} for i in mm[:20]]

    slot_stats = slot_scenario(ctx, verdict) if not replay else {}
    ctx.log("composable slots: " + json.dumps(slot_stats))
    # ---- coverage (measured)
    distinct, nontriv = set(), 0
    kinds, cons_hist, eq_hist = {}, {}, {"t": 0, "f": 0, "p": 0, "-": 0}
    unm = set(ev["UNM"])
    schema_by = {sid: s for sid, s in plan}
    for i in live:
        j, r = camp.jobs[i], camp.results[i]
        kinds[j["meta"].get("kind", "replay")] = kinds.get(j["meta"].get("kind", "replay"), 0) + 1
        for row in r["eq"]:
            for c in row:
                eq_hist[c] = eq_hist.get(c, 0) + 1
        h = core.canon_hash([j["sid"], j["type"], j["docs"]])
        if h in distinct or i in unm:
            continue
        distinct.add(h)
        s = schema_by.get(j["sid"])
        cs = set()
        if s is not None and "stress" not in j["meta"].get("kind", ""):
            for d in j["pydocs"]:
                try:
                    cs |= srcgen.constructs(s, d, j["type"])
                except Exception:
                    pass
        for c in cs:
            cons_hist[c] = cons_hist.get(c, 0) + 1
        flat = [c for row in r["eq"] for c in row]
        if len(cs) >= 3 and "t" in flat and "f" in flat:
            nontriv += 1
    gen_hist = {}
    for sid, g in batch.gen.items():
        key = batch.schemas[sid][1] + ":" + (g.status if g.status == "OK" else g.status + "@" + g.stage)
        gen_hist[key] = gen_hist.get(key, 0) + 1
    samples = []
    for i in live[:3]:
        samples.append({"format": batch.schemas[camp.jobs[i]["sid"]][1], "type": camp.jobs[i]["type"],
                        "docs": camp.jobs[i]["docs"], "equals_matrix": camp.results[i]["eq"],
                        "encodings": [srcgen.dumps(x["enc"]) if x["std"] == "ok" else None for x in camp.results[i]["res"]]})
    cov = {
        "composable_slot_scenario": slot_stats,
        "evaluations": len(live),
        "equals_calls_observed": eq_hist["t"] + eq_hist["f"] + eq_hist.get("p", 0),
        "distinct_nontrivial": nontriv,
        "rule": "one evaluation = a document triple decoded by both decoders of a generated struct type (6 values, 36 Equals calls, 6 encodings); distinct by hash of (schema, type, documents); non-trivial = the documents exercise >= 3 constructs of their schema and the observed matrix contains both true and false; unmodelled cases are not counted",
        "samples": samples,
        "schemas": len(batch.schemas),
        "cog_outcomes_by_format": gen_hist,
        "packages_not_compiling": len(batch.compile_errors),
        "packages_with_unused_import_removed": len(batch.import_fixups),
        "triple_kind_histogram": kinds,
        "construct_histogram": cons_hist,
        "equals_result_histogram": eq_hist,
        "unmodelled_cases": len(ev["UNM"]),
        "mismatches_model_vs_impl": {k: len(ev[k]) for k in ("MM_STD", "MM_STRICT", "MM_EQ", "MM_WT", "MM_SPEC")},
        "propfails_on_impl": {k: len(ev[k]) for k in ("PF_REFL", "PF_SYM", "PF_TRANS", "PF_ENC_EQ", "PF_EQ_ENC", "PF_PANIC")},
        "propfails_attributed_to_map_keys": len(by_map & (set(ev["PF_SYM"]) | set(ev["PF_TRANS"]) | set(ev["PF_EQ_ENC"]))),
        "cases_validated_against_impl": len(live) - len(ev["UNM"]) - len(mm),
    }
    return {"coverage": cov, "unexplained_mismatches": unexplained,
            "search_note": "generated schemas x document triples (single-leaf mutants, empty/absent variants, repeated documents, zone notations); laws evaluated on the real Equals matrix and encodings"}


def compile_cause(err):
    if "mismatched types" in err and "untyped nil" in err:
        return "non-pointer-compared-with-nil"
    if "imported and not used" in err:
        return "unused-import"
    if "undefined" in err:
        return "undefined-identifier"
    if "redeclared" in err:
        return "redeclared"
    if "unknown" in err:
        return "placeholder-type-unknown"
    return "other"
