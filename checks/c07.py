"""C07 - outputs independent of sibling languages and input order; same-package inputs merge into
the union or fail; transformation chains never modify the schemas they are handed.

Theorems (coq/Props/C07.v): merge_union_or_conflict / merge_conflict_is_an_error,
input_order_irrelevant, unreferenced_input_irrelevant on the IR model of Consolidate/Merge
(coq/Model/Pipeline.v); process_does_not_mutate / language_independent for Pipeline.Run's language
loop over a labelled heap, as corollaries of C18 (copy table regenerated from /repo on every run).
Correspondence (harness/verifh_pipe, the REAL pipeline):
  * `consolidate`: parsed inputs and the result of Schemas.Consolidate as Gallina terms; Coq
    compares with the model - including the order of the returned packages, first appearance -
    (MISMATCH) and evaluates union-or-conflict on the implementation's own result (PROPFAIL);
  * metamorphic runs of codegen.Pipeline.Run: language subsets vs all languages, input
    permutations, an extra package nothing references, same-package inputs (disjoint / equal /
    conflicting);
  * `mutate`: deep snapshot (own reflection walker) of the schemas before/after every language's
    Passes.Process and ContextForLanguage; context of a language computed alone vs after all others.
Metamorphic comparisons run on the forced-order build with every map range sorted, so that the
map-order nondeterminism that belongs to C03 cannot be mistaken for a C07 failure."""
import copy
import itertools
import json
import os
import re

from gen import pipegen
from vlib import core, pipelib
from checks import c18

COQ_TARGETS = ["Props/C07.vo", "Model/PipelineCheck.vo"]
PROPS = "Props/C07.v"
TRUSTED = [
    "jennies, builders and veneers are abstracted as a function `out` of language and schema data; chains as lists of heap writes confined to the copy they work on (stated hypotheses of language_independent) - validated by the metamorphic runs and the snapshot check, not proved",
    "Consolidate/Merge modelled on the IR: Object.Equal = structural equality without PassesTrail; cmp.Equal's nil-vs-empty distinction not modelled",
    "Schemas.DeepCopy / Passes.Process / ContextForLanguage are tied to the model by syntactic anchors re-read from /repo on every run and by the snapshot check",
    "metamorphic comparisons use the forced-order build (rewritten copies of the files that range over maps, build-time overlay only) with every site sorted; the unmodified build is used for `consolidate` and for the mutation snapshots",
    "harness printers harness/verifh_pipe/irprint.go (Gallina) and snap.go (reflection walker reading unexported fields)",
]
ASSUMPTIONS = [
    "inputs are well-formed schemas: objects keyed by their own name, names distinct (what AddObject / the ordered map guarantee, C19)",
    "`file generated for a package` = its path mentions the package name; aggregate files that mention no package are not compared when a package is added",
    "a composable plugin package composed into dash.Panel by a compose veneer is related to dash (dash's API reference lists the plugin's builder among the builders of Panel): files of dash are not compared when such a plugin is added or dropped",
]

PRE = ("From Cog Require Import Model.PipelineCheck.\nImport ListNotations.\nLocal Open Scope string_scope.\n")


def regen(ctx):
    c18.regen(ctx)           # Gen/CopySpec_gen.v: the copy table language_independent is instantiated with
    ctx.sites_data = pipelib.run_sites(ctx, os.path.join(ctx.scratch, "rewritten"))


def anchors():
    """the three places the heap model of the language loop mirrors; returns the list of broken ones"""
    bad = []

    def body(path, sig):
        src = open(os.path.join(core.REPO, path)).read()
        m = re.search(re.escape(sig) + r"\s*\{(.*?)\n\}", src, re.S)
        return re.sub(r"\s+", " ", m.group(1)).strip() if m else None

    b = body("internal/ast/compiler/compiler.go", "func (passes Passes) Process(schemas ast.Schemas) (ast.Schemas, error)")
    if not b or not re.match(r"var err error processedSchemas := schemas\.DeepCopy\(\) for _, compilerPass := range passes \{ processedSchemas, err = compilerPass\.Process\(processedSchemas\)", b):
        bad.append("compiler.Passes.Process no longer starts from schemas.DeepCopy()")
    b = body("internal/ast/schema.go", "func (schemas Schemas) DeepCopy() []*Schema")
    if b != "newSchemas := make([]*Schema, 0, len(schemas)) for _, schema := range schemas { newSchema := schema.DeepCopy() newSchemas = append(newSchemas, &newSchema) } return newSchemas":
        bad.append("Schemas.DeepCopy is no longer a fresh slice of pointers to Schema.DeepCopy() results (mode SlicePtrCall)")
    b = body("internal/codegen/run.go", "func (pipeline *Pipeline) ContextForLanguage(language languages.Language, schemas ast.Schemas) (languages.Context, error)")
    if not b or "jenniesInput.Schemas, err = compilerPasses.Process(jenniesInput.Schemas)" not in b:
        bad.append("ContextForLanguage no longer hands the schemas to compiler.Passes.Process")
    return bad


# ----------------------------------------------------------------------------- variants of a spec
def with_languages(spec, langs):
    s = copy.deepcopy(spec)
    s["languages"] = list(langs)
    return s


def permuted_inputs(spec, rng):
    s = copy.deepcopy(spec)
    inputs = s["inputs"]
    order = list(range(len(inputs)))
    for _ in range(10):
        rng.shuffle(order)
        if order != sorted(order):
            break
    # inputs of one package keep their relative order (the property speaks of different packages)
    by_pkg = {}
    for i in sorted(order, key=order.index):
        by_pkg.setdefault(inputs[i]["pkg"], []).append(i)
    pos = {p: iter(sorted(v)) for p, v in by_pkg.items()}
    s["inputs"] = [inputs[next(pos[inputs[i]["pkg"]])] for i in order]
    return s


def with_extra_package(spec, rng):
    s = copy.deepcopy(spec)
    s["inputs"].append({"pkg": "zeta", "format": "jsonschema", "file": "schemas/zeta_extra.json", "transforms": [],
                        "defs": [{"name": "Lonely", "def": pipegen.gen_struct(rng, [], 3)},
                                 {"name": "Leaf", "def": pipegen.gen_struct(rng, [], 2)}]})
    s["inputs"][-1]["defs"][0]["def"]["fields"].append({"name": "leaf", "type": {"t": "ref", "to": "Leaf"}, "required": False})
    return s


def without_last_package(spec):
    """the inverse of adding an unreferenced input: drop the last input when no other input shares its
    package and it is not the source of a compose veneer; returns (spec, dropped package) or None"""
    inputs = spec["inputs"]
    if len(inputs) < 3:
        return None
    last = inputs[-1]
    if last["pkg"] == "dash" or sum(1 for x in inputs if x["pkg"] == last["pkg"]) != 1:
        return None
    s = copy.deepcopy(spec)
    s["inputs"].pop()
    return s, last["pkg"]


def with_same_package(spec, rng, mode):
    """a second input contributing to the first input's package: disjoint | equal | conflict"""
    s = copy.deepcopy(spec)
    base = s["inputs"][0]
    extra = {"pkg": base["pkg"], "format": "jsonschema", "file": "schemas/%s_second.json" % base["pkg"], "transforms": []}
    if base.get("metadata"):
        extra["metadata"] = base["metadata"]
    if mode == "disjoint":
        extra["defs"] = [{"name": "SecondRoot", "def": pipegen.gen_struct(rng, [], 2)},
                         {"name": "SecondLeaf", "def": pipegen.gen_struct(rng, [], 2)}]
        extra["defs"][0]["def"]["fields"].append({"name": "leaf", "type": {"t": "ref", "to": "SecondLeaf"}, "required": False})
    else:
        # redefine leaf definitions (no references inside) of the first input: every one identically, except that
        # in the conflict modes one of them (the first / the last / a random one of the shared ones) differs
        leaves = [d for d in base["defs"][1:]
                  if all(f["type"]["t"] not in ("ref", "oneof", "array", "map") for f in d["def"]["fields"]) and d["def"]["fields"]]
        k = 0
        while len(leaves) < 3:
            leaf = {"name": "SharedLeaf%s" % (k or ""), "def": {"kind": "struct", "fields": [{"name": "name", "type": {"t": "string"}, "required": True}]}}
            k += 1
            base["defs"].append(leaf)
            leaves.append(leaf)
        pipegen.link_unreferenced(base["defs"])
        shared = [copy.deepcopy(d) for d in leaves[:4]]
        if mode.startswith("conflict"):
            shared.sort(key=lambda d: d["name"])
            which = {"conflict-first": 0, "conflict-last": len(shared) - 1}.get(mode, rng.randrange(len(shared)))
            f0 = shared[which]["def"]["fields"][0]
            f0["type"] = {"t": "boolean"} if f0["type"]["t"] != "boolean" else {"t": "string"}
            if mode == "conflict":
                rng.shuffle(shared)
        extra["defs"] = [{"name": "SecondRoot", "def": {"kind": "struct", "fields": [
            {"name": "shared%d" % i, "type": {"t": "ref", "to": d["name"]}, "required": False} for i, d in enumerate(shared)]}}] + shared
    s["inputs"].append(extra)
    return s


def lang_of(path):
    m = re.match(r"out/([a-z]+)/", path)
    return m.group(1) if m else "?"


def mentions(path, pkg):
    return re.search(r"(^|[^a-z0-9])" + re.escape(pkg.lower()) + r"([^a-z0-9]|$)", path.lower()) is not None


def corpus_specs():
    d = os.path.join(core.VERIF, "corpus", "C07")
    out = []
    if os.path.isdir(d):
        for f in sorted(os.listdir(d)):
            if f.endswith(".json"):
                out.append(("corpus/" + f, json.load(open(os.path.join(d, f)))["spec"]))
    return out


def run(ctx, verdict, replay=None, model_ok=True):
    rng = ctx.rng
    thorough = ctx.tier == "thorough"
    data = getattr(ctx, "sites_data", None) or pipelib.run_sites(ctx, os.path.join(ctx.scratch, "rewritten"))
    plain = pipelib.build_plain(ctx)
    forced = None
    try:
        forced = pipelib.build_forced(ctx, data["rewritten"])
    except core.HarnessBuildError as e:
        ctx.log("forced-order build failed; metamorphic runs fall back to the unmodified build (3 runs per side, only self-consistent sides compared):", str(e)[-300:])

    unexplained = []
    for a in anchors():
        ctx.log("ANCHOR:", a)
        unexplained.append({"job": {"anchor": a}, "anchor": a})

    # ---------------- base cases
    if replay:
        rp = json.load(open(replay))
        job = rp.get("job") or rp["first_mismatch"]["job"]
        bases = [("replay", job["spec"])]
    else:
        bases = corpus_specs()
        nb = 120 if thorough else 28
        for i in range(nb):
            shapes = {k: rng.random() < 0.5 for k in pipegen.SHAPE_KEYS}
            shapes["nested_params"] = False   # the value of a nested parameter is C03's subject
            shapes["mutual_params"] = False
            shapes["case_twins"] = False      # restricts the outputs to the two schema languages
            # intersections with an inline struct branch (what language passes rewrite in place):
            # every third base, with the languages that generate them
            shapes["intersection"] = (i % 3 == 1)
            b = rng.random() < 0.7
            flags = {"builders": b, "converters": b and rng.random() < 0.5, "api_reference": rng.random() < 0.4}
            bases.append(("gen/%d" % i, pipegen.gen_case(rng, langs=pipegen.LANGS, shapes=shapes, flags=flags,
                                                         npkgs=rng.randint(3, 4))))

    # ---------------- variants: (base index, relation, detail, spec)
    variants = []
    for bi, (name, spec) in enumerate(bases):
        langs = spec["languages"]
        variants.append((bi, "base", None, spec))
        subsets = []
        if thorough and bi < 4:
            for k in range(1, len(langs)):
                subsets += [list(c) for c in itertools.combinations(langs, k)]
        else:
            subsets.append([langs[bi % len(langs)]])
            subsets.append([langs[(bi + 3) % len(langs)]])
            for _ in range(4 if thorough else 2):
                k = rng.randint(2, max(2, len(langs) - 1))
                subsets.append(sorted(rng.sample(langs, min(k, len(langs)))))
        for s in subsets:
            if len(s) < len(langs):
                variants.append((bi, "language-subset", s, with_languages(spec, s)))
        for _ in range(3 if thorough else 2):
            variants.append((bi, "input-permutation", None, permuted_inputs(spec, rng)))
        variants.append((bi, "extra-package", None, with_extra_package(spec, rng)))
        dropped = without_last_package(spec)
        if dropped:
            variants.append((bi, "drop-package", dropped[1], dropped[0]))
        for mode in ("disjoint", "equal", "conflict", "conflict-first", "conflict-last"):
            variants.append((bi, "same-package-" + mode, None, with_same_package(spec, rng, mode)))
    cfgs = []
    for i, v in enumerate(variants):
        cfgs.append(pipelib.write_case(os.path.join(ctx.scratch, "case_%04d" % i), pipegen.render(v[3])))
    ctx.log("%d base pipelines, %d variants" % (len(bases), len(variants)))

    def J(i, **kw):
        return dict({"config": cfgs[i], "parameters": variants[i][3].get("extra_parameters"), "timeout_s": 90 if thorough else 40}, **kw)

    # ---------------- run the pipeline on every variant
    if forced:
        jobs = [J(i, n=1, orders=[{"default": "sorted"}]) for i in range(len(cfgs))]
        res = pipelib.run_jobs(forced, "run", jobs)
        runs = [pipelib.variants_of(r)[0] for r in res]
    else:
        jobs = [J(i, n=3) for i in range(len(cfgs))]
        res = pipelib.run_jobs(plain, "run", jobs)
        runs = [(pipelib.variants_of(r)[0] if len(pipelib.variants_of(r)) == 1 else None) for r in res]
    evaluations = len(jobs) * (1 if forced else 3)

    base_run = {}
    for i, v in enumerate(variants):
        if v[1] == "base":
            base_run[v[0]] = runs[i]
    rel_hist, rel_fail = {}, {}

    def fail(rel, what, i, detail):
        rel_fail[rel] = rel_fail.get(rel, 0) + 1
        bi = variants[i][0]
        verdict.propfail({"relation": rel, "what": what},
                         {"job": {"spec": bases[bi][1]}, "base": bases[bi][0], "variant_spec": variants[i][3],
                          "relation": rel, "detail": detail,
                          "predicate": "files(variant) restricted to what the relation keeps fixed = files(base)"})

    for i, (bi, rel, det, spec) in enumerate(variants):
        if rel == "base":
            continue
        B, V = base_run.get(bi), runs[i]
        rel_hist[rel] = rel_hist.get(rel, 0) + 1
        if B is None or V is None:
            continue            # one side crashed or (fallback mode) was not self-consistent
        if B["status"] != "Ok":
            continue
        if rel == "language-subset":
            if V["status"] != "Ok":
                fail(rel, "status", i, {"languages": det, "status": V["status"], "err": V.get("err_text")})
                continue
            diffs = []
            for p, h in B["files"].items():
                if lang_of(p) in det and V["files"].get(p) != h:
                    diffs.append(p)
            for p in V["files"]:
                if p not in B["files"]:
                    diffs.append(p)
            if diffs:
                fail(rel, lang_of(diffs[0]), i, {"languages": det, "differing": sorted(diffs)[:10]})
        elif rel == "input-permutation":
            if V["status"] != "Ok" or V["files"] != B["files"]:
                diffs = sorted(p for p in set(B["files"]) | set(V["files"]) if B["files"].get(p) != V["files"].get(p))
                fail(rel, lang_of(diffs[0]) if diffs else "status", i,
                     {"order": [x["file"] for x in spec["inputs"]], "status": V["status"], "differing": diffs[:10]})
        elif rel == "extra-package":
            if V["status"] != "Ok":
                fail(rel, "status", i, {"status": V["status"], "err": V.get("err_text")})
                continue
            pkgs = [x["pkg"] for x in bases[bi][1]["inputs"]]
            diffs = [p for p, h in B["files"].items()
                     if any(mentions(p, q) for q in pkgs) and not mentions(p, "zeta") and V["files"].get(p) != h]
            if diffs:
                fail(rel, lang_of(diffs[0]), i, {"differing": sorted(diffs)[:10]})
        elif rel == "drop-package":
            # base = variant + one more input whose package nothing references
            if V["status"] != "Ok":
                fail("extra-package", "status", i, {"dropped": det, "status": V["status"], "err": V.get("err_text")})
                continue
            pkgs = [x["pkg"] for x in spec["inputs"]]
            # a plugin composed into dash.Panel yields a builder FOR dash.Panel: dash's API reference lists
            # it ("builders of this object") - dash is related to the plugin, not independent of it
            composed = any(x["pkg"] == det and x.get("metadata") for x in bases[bi][1]["inputs"])
            diffs = [p for p, h in V["files"].items()
                     if any(mentions(p, q) for q in pkgs) and not mentions(p, det) and B["files"].get(p) != h
                     and not (composed and mentions(p, "dash"))]
            if diffs:
                fail("extra-package", lang_of(diffs[0]), i, {"added_package": det, "differing": sorted(diffs)[:10]})
        elif rel.startswith("same-package-"):
            want = "Err" if "conflict" in rel else "Ok"
            if V["status"] != want:
                fail("same-package-merge", ("conflict" if "conflict" in rel else rel.split("-")[-1]) + ":" + V["status"], i,
                     {"expected": want, "status": V["status"], "err": V.get("err_text")})

    # ---------------- Consolidate: model vs implementation, and union-or-conflict on the implementation
    cres = pipelib.run_jobs(plain, "consolidate", [J(i) for i in range(len(cfgs))])
    evaluations += len(cfgs)
    usable = [i for i, r in enumerate(cres) if r and r["status"] in ("Ok", "Err")]
    mm, pf = [], []
    if model_ok and usable:
        shard = 40
        shards = [usable[i:i + shard] for i in range(0, len(usable), shard)]

        def do(k):
            idx = shards[k]
            cases = "[" + ";\n".join("(%s, %s)" % (cres[i]["inputs"], ("Ok " + cres[i]["output"]) if cres[i]["status"] == "Ok" else 'Err ""')
                                     for i in idx) + "]"
            pre = PRE + "Definition cases : list ccase :=\n%s.\n" % cases
            try:
                r = core.coq_eval_lists(ctx, "cases_C07_%d" % k, pre, [("MM", "indices consolidate_mismatch cases"),
                                                                      ("PF", "indices consolidate_propfail cases")])
            except RuntimeError as e:
                return {"error": str(e)[-1500:], "idx": idx}
            return {"MM": [idx[x] for x in r["MM"]], "PF": [idx[x] for x in r["PF"]]}

        for part in core.parallel(do, list(range(len(shards)))):
            if "error" in part:
                unexplained.append({"job": {"spec": variants[part["idx"][0]][3]}, "coqc": part["error"],
                                    "what": "consolidate cases no longer evaluate against the model"})
                continue
            mm += part["MM"]
            pf += part["PF"]
    for i in pf:
        fail("same-package-merge", "union-or-conflict:" + cres[i]["status"], i,
             {"status": cres[i]["status"], "err": cres[i].get("err_text"), "inputs": cres[i]["inputs"][:2000], "output": cres[i]["output"][:2000]})
    for i in mm:
        if i not in pf:
            unexplained.append({"job": {"spec": variants[i][3]}, "what": "Model/Pipeline.v consolidate <> Schemas.Consolidate (schemas and their order)",
                                "impl_status": cres[i]["status"], "inputs": cres[i]["inputs"][:1500]})

    # ---------------- mutation snapshots (unmodified build) and context sharing (forced, sorted)
    base_idx = [i for i, v in enumerate(variants) if v[1] == "base"]
    mres = pipelib.run_jobs(plain, "mutate", [J(i) for i in base_idx])
    evaluations += len(base_idx)
    mutated, ctx_checked = 0, 0
    for i, r in zip(base_idx, mres):
        B = base_run.get(variants[i][0])
        if r is None or r["status"] in ("Timeout", "Panic"):
            if B is not None and B["status"] == "Ok":
                fail("mutation", "hang-or-crash", i, {"status": r["status"] if r else "Crash", "err": (r or {}).get("err_text")})
            continue
        if r["status"] != "Ok":
            continue
        for m in r.get("mutations") or []:
            mutated += 1
            fail("mutation", m["stage"], i, {"language": m["lang"], "paths": m["paths"]})
    if forced:
        sres = pipelib.run_jobs(forced, "mutate", [J(i, order="sorted") for i in base_idx])
        evaluations += len(base_idx)
        for i, r in zip(base_idx, sres):
            if r is None or r["status"] != "Ok":
                continue
            for l in r["languages"]:
                ctx_checked += 1
                if r["ctx_alone"].get(l) != r["ctx_shared"].get(l):
                    fail("context-sharing", l, i, {"language": l, "alone": r["ctx_alone"].get(l), "after_others": r["ctx_shared"].get(l)})

    # ---------------- coverage
    distinct, nontriv = set(), 0
    for bi, (name, spec) in enumerate(bases):
        B = base_run.get(bi)
        if B is None:
            continue
        if B["files_sha"] in distinct:
            continue
        distinct.add(B["files_sha"])
        if len(set(x["pkg"] for x in spec["inputs"])) >= 2 and len(spec["languages"]) >= 2 and B["status"] == "Ok" and len(B["files"]) >= 4:
            nontriv += 1
    cov = {
        "evaluations": evaluations,
        "distinct_nontrivial": nontriv,
        "rule": "base pipelines distinct by sha256 of their generated file set; non-trivial = >= 2 packages, >= 2 languages, generation succeeds with >= 4 files; every base is run under each metamorphic relation",
        "samples": [{"base": bases[i][0], "languages": bases[i][1]["languages"], "packages": [x["pkg"] for x in bases[i][1]["inputs"]],
                     "shapes": bases[i][1].get("shapes"), "files": len((base_run.get(i) or {"files": {}})["files"])} for i in range(min(3, len(bases)))],
        "bases": len(bases), "variants": len(variants),
        "relation_histogram": rel_hist, "relation_failures": rel_fail,
        "consolidate_cases": len(usable), "consolidate_err_cases": sum(1 for i in usable if cres[i]["status"] == "Err"),
        "consolidate_objects": sum(cres[i]["objects"] for i in usable),
        "mismatches_model_vs_impl": len(mm), "propfails_on_impl": len(pf),
        "traces_validated_against_impl": len(usable) - len(mm),
        "snapshot_checks": len(base_idx), "stages_that_mutated": mutated, "contexts_compared_alone_vs_shared": ctx_checked,
        "anchors_broken": anchors(),
        "forced_order_build": bool(forced),
        "extra_obligations": 0,
    }
    return {"coverage": cov, "unexplained_mismatches": unexplained,
            "search_note": "metamorphic pipeline runs (language subsets, input permutations, extra package, same-package inputs), Consolidate cases evaluated in Coq, mutation snapshots"}
