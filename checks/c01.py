"""C01 — documents the source schema accepts load into the generated Go types and round-trip.

Theorems: coq/Props/C01.v over coq/Model/GoSemDecode.v / GoSemStrict.v (go_roundtrip_nf and its
refuted / partial variants).
Tie to the code: correspondence.  Construct-grammar schemas rendered as JSON Schema, OpenAPI 3.0 and
CUE -> real cog -> compiled driver.  Hypothesis "accepted by the source schema" comes from the schema
language's own reference validator (python jsonschema Draft7 / kin-openapi / CUE), never from the
model; documents use only declared properties by construction.  Per accepted document: standard and
strict decoding must succeed, the re-encoded document must still be accepted by the reference
validator and be JSON-equal to the original except for omitted null members (PROPFAIL, evaluated on the
real output; JSON equality inside Coq with Model/Json.v).  The model's prediction of every decode
outcome and re-encoding is compared with the real one (MISMATCH), and coq `Src.valid` is compared with
the reference validators (src_valid stream)."""
import json
import os
import re

from gen import srcgen
from vlib import core, gencode

COQ_TARGETS = ["Props/C01.vo", "Model/GoSemChecks.vo", "Model/Src.vo", "Model/FrontEnd.vo", "Model/FrontEndSpec.vo", "Model/FrontEndSpecOA.vo", "Model/FrontEndSpecCue.vo",
               "Model/FrontEndCue.vo"]
PROPS = "Props/C01.v"
TRUSTED = [
    "hand-written Gallina model of encoding/json driven by the generated declarations and of the generated (strict) unmarshalers/marshalers (coq/Model/GoSemDecode.v, GoSemStrict.v), validated only on generated cases",
    "reference validators define acceptance: python jsonschema 4.x Draft7 with date-time format checking, kin-openapi VisitJSON (format validation on), CUE Unify+Validate(Concrete)",
    "front-ends are exercised, not modelled: the theorems speak about the post-chain IR; the composition with the front-ends is covered by the correspondence only",
    "numbers within 15 significant digits (float32 fields: 6), integers within 2^53, ASCII identifiers, RFC 3339 date-times with whole-hour offsets in the model",
    "harness/verifh_gen, drivers/go/main.go, gen/srcgen.py (renderers, document generator)",
]
ASSUMPTIONS = ["documents use only declared properties and have no duplicate member names",
               "date-time values are well-formed RFC 3339 (format assertion on)"]

EVAL_DEFS = [("UNM", "case_unmodelled"), ("MM_STD", "mm_std"), ("MM_STRICT", "mm_strict"),
             ("PF_STD", "pf_decode_std"), ("PF_STRICT", "pf_decode_strict"),
             ("PF_RT", "pf_reencode_std"), ("PF_RTS", "pf_reencode_strict"), ("MPANIC", "model_strict_panics"),
             ("MM_SPEC01", "mm_rt_spec"), ("SAFE", "some_doc_safe"), ("PF_SAFE", "pf_in_safe_fragment")]

TS = re.compile(r"^\d{4}-\d\d-\d\dT\d\d:\d\d:\d\d(\.\d+)?(Z|[+-]\d\d:\d\d)$")


def le_null_diffs(d, e, path=(), out=None):
    """positions where the re-encoding e is not `d with some null members removed` -> [(path, original, reencoded)]"""
    out = [] if out is None else out
    if len(out) >= 8:
        return out
    if isinstance(d, dict) and isinstance(e, dict):
        for k, v in d.items():
            if k not in e:
                if v is not None:
                    out.append((path + (k,), v, "<absent>"))
                continue
            le_null_diffs(v, e[k], path + (k,), out)
        for k in e:
            if k not in d:
                out.append((path + (k,), "<absent>", e[k]))
        return out
    if isinstance(d, list) and isinstance(e, list):
        if len(d) != len(e):
            out.append((path, "<len %d>" % len(d), "<len %d>" % len(e)))
            return out
        for i, (x, y) in enumerate(zip(d, e)):
            le_null_diffs(x, y, path + (i,), out)
        return out
    if not srcgen.json_same(d, e):
        out.append((path, d, e))
    return out


def le_null_diff(d, e):
    r = le_null_diffs(d, e)
    return r[0] if r else None


def classify_diffs(diffs):
    return "+".join(sorted({classify_diff(x) for x in diffs})) if diffs else "only-null-members-omitted"


def classify_diff(diff):
    if diff is None:
        return "other"
    _, a, b = diff
    if b == "<absent>" and a in ([], {}):
        return "empty-collection-dropped-by-omitempty"
    if b == "<absent>":
        return "member-dropped"
    if isinstance(a, str) and isinstance(b, str) and TS.match(a) and TS.match(b):
        return "date-time-reformatted"
    if isinstance(a, list) and isinstance(b, str):
        return "uint8-array-printed-as-base64-string"
    if a is None and b is not None:
        return "null-replaced-by-zero-value"
    if a in ([], {}) and b is None:
        return "empty-collection-became-null"
    if isinstance(a, (int, srcgen.Decimal)) and isinstance(b, (int, srcgen.Decimal)) and not isinstance(a, bool):
        return "number-changed"
    if a == "<absent>":
        return "member-added"
    return "other"


def decode_cause(batch, sid, x, doc, fmt, which):
    """why a document the schema accepts fails to decode"""
    from checks import c08
    if x[which] == "panic":
        # when the package has both panicking shapes the driver cannot tell which one fired: name the first
        return "panic:" + ([s for s in c08.code_shapes(batch, sid) if "array" in s] or ["other"])[0]
    if which == "strict":
        c = c08.null_required_cause(doc, x.get("spaths"), fmt)
        if c:
            return c
        shapes = [s for s in c08.code_shapes(batch, sid) if "map" in s]
        if shapes:
            return "+".join(shapes)
    if c08.has_fraction_zero(srcgen.dumps(doc)):
        return "integer-written-with-fraction"
    return "other:" + fmt


def variants(rng, dg, n):
    out = []
    for _ in range(n):
        d = dg.valid()
        c = rng.random()
        kind = "valid"
        if c < 0.08:
            v = dg.intfrac_variant(d)
            if v is not None:
                d, kind = v, "valid+int-as-n.0"
        elif c < 0.2:
            v = dg.empty_variant(d)
            if v is not None:
                d, kind = v, "valid+empty-collections"
        out.append((d, kind))
    return out


def run(ctx, verdict, replay=None, model_ok=True):
    rng = ctx.rng
    thorough = ctx.tier == "thorough"
    camp = gencode.Campaign(ctx, "c01")
    plan, replay_jobs = [], []
    if replay:
        for job in gencode.Campaign.replay_jobs(replay):
            replay_jobs.append((camp.add_schema_text(job["pkg"], job["fmt"], job["schema_text"]), job))
    else:
        cdir = os.path.join(core.VERIF, "corpus", "C01")
        if os.path.isdir(cdir):
            for f in sorted(os.listdir(cdir)):
                job = json.load(open(os.path.join(cdir, f)))["job"]
                job = dict(job, pkg="k%03d" % len(replay_jobs))
                job["schema_text"] = re.sub(r"(?m)^package \w+", "package " + job["pkg"], job["schema_text"])
                replay_jobs.append((camp.add_schema_text(job["pkg"], job["fmt"], job["schema_text"]), job))
        per_fmt = 500 if thorough else 20
        k = 0
        for fmt in srcgen.FORMATS:
            for _ in range(per_fmt):
                s = srcgen.SrcGen(rng, max_depth=4 if thorough else 3, fmt=fmt,
                                  features=srcgen.ALL_FEATURES + srcgen.EXTRA_FEATURES + srcgen.FRONTEND_FEATURES +
                                  ("plural_twins", "nullable_named_dunion")).schema("s%03d" % k)
                k += 1
                camp.add_schema(s, fmt)
                plan.append((s["pkg"], s))
    batch = camp.prepare()
    ctx.log("cog ran on %d schemas: %d generated, %d rejected by cog, %d do not compile, %d needed an unused import removed"
            % (len(batch.schemas), len([g for g in batch.gen.values() if g.status == "OK"]),
               len([g for g in batch.gen.values() if g.status != "OK"]), len(batch.compile_errors), len(batch.import_fixups)))
    ok = set(batch.ok_sids())
    for sid, job in replay_jobs:
        if sid in ok:
            camp.add_job(sid, job["type"], [srcgen.loads(d) for d in job["docs"]], meta=job.get("meta"))
    ndocs = 60 if thorough else 30
    for sid, s in plan:
        if sid not in ok:
            continue
        names = {o["name"] for o in batch.struct_objects(sid)}
        if s["root"] not in names:
            continue
        dg = srcgen.DocGen(rng, s)
        docs = variants(rng, dg, ndocs)
        for i in range(0, len(docs), 3):
            grp = docs[i:i + 3]
            camp.add_job(sid, s["root"], [d for d, _ in grp], meta={"kinds": [k_ for _, k_ in grp]})
    for j in camp.jobs:
        j["ops"] = ["std", "strict"]
    camp.run()
    live = camp.live()
    ctx.log("driver ran %d jobs (%d survived)" % (len(camp.jobs), len(live)))

    # ---- hypothesis: accepted by the source schema's own validator
    items = [{"fmt": batch.schemas[camp.jobs[i]["sid"]][1], "path": batch.schema_path(camp.jobs[i]["sid"]),
              "type": camp.jobs[i]["type"], "docs": camp.jobs[i]["docs"]} for i in live]
    verdicts = gencode.ref_validate(ctx, items)
    accepted = {}
    n_docs = n_acc = 0
    for i, v in zip(live, verdicts):
        n_docs += len(camp.jobs[i]["docs"])
        if v is None:
            continue
        keep = [d for d in range(len(camp.jobs[i]["docs"])) if d < len(v) and v[d] == "1"]
        n_acc += len(keep)
        if keep:
            accepted[i] = keep
    ctx.log("reference validators accepted %d of %d generated documents" % (n_acc, n_docs))
    # ---- conclusion part 1: re-encoded documents are still accepted
    items2, back = [], []
    for i, keep in accepted.items():
        r = camp.results[i]
        for which, tag in (("enc", "std"), ("senc", "strict")):
            docs2, idx2 = [], []
            for d in keep:
                x = r["res"][d]
                if x[tag] == "ok" and x[which] is not None:
                    docs2.append(srcgen.dumps(x[which]))
                    idx2.append(d)
            if docs2:
                j = camp.jobs[i]
                items2.append({"fmt": batch.schemas[j["sid"]][1], "path": batch.schema_path(j["sid"]), "type": j["type"], "docs": docs2})
                back.append((i, tag, idx2))
    verdicts2 = gencode.ref_validate(ctx, items2)
    reencoded_rejected = []
    for (i, tag, idx2), v in zip(back, verdicts2):
        if v is None:
            continue
        for pos, d in enumerate(idx2):
            if pos < len(v) and v[pos] == "0":
                reencoded_rejected.append((i, d, tag))
    ctx.log("re-encoded documents re-validated: %d groups, %d rejected" % (len(items2), len(reencoded_rejected)))

    ev = camp.evaluate("cases_C01", "Model.GoSemChecks", EVAL_DEFS, select=accepted)
    ctx.log("coq evaluated: " + " ".join("%s=%d" % (k, len(v)) for k, v in ev.items()))

    budget = {"n": 40}

    pf_safe = set(ev["PF_SAFE"])

    def report(sig, i, d, extra=None):
        # "safe" = some document of the group fails INSIDE the fragment go_roundtrip_nf_partial covers:
        # no exclusion of roundtrip_safe explains it
        sig = dict(sig, fragment="safe" if i in pf_safe else "excluded")
        if budget["n"] <= 0:
            return
        job = camp.job_payload(i)
        job["docs"] = [job["docs"][d]]
        payload = {"job": job, "observed": {"res": [camp.results[i]["res"][d]]}, "doc_index_in_group": d}
        payload.update(extra or {})
        if verdict.propfail(sig, payload) == "violation":
            budget["n"] -= 1

    by_size = lambda idxs: sorted(idxs, key=lambda i: len(json.dumps(camp.jobs[i]["docs"])))
    counts = {"std_decode_fails": 0, "strict_decode_fails": 0, "reencoded_differs": 0, "strict_reencoded_differs": 0,
              "reencoded_rejected_by_schema": len(reencoded_rejected)}
    for key, tag, kind in (("PF_STD", "std", "standard-decoder-rejects"), ("PF_STRICT", "strict", "strict-decoder-rejects")):
        for i in by_size(ev[key]):
            j, r = camp.jobs[i], camp.results[i]
            fmt = batch.schemas[j["sid"]][1]
            for d in accepted[i]:
                x = r["res"][d]
                if x[tag] != "ok":
                    counts["std_decode_fails" if tag == "std" else "strict_decode_fails"] += 1
                    report({"kind": kind, "cause": decode_cause(batch, j["sid"], x, j["pydocs"][d], fmt, tag)}, i, d)
    for key, which, tag, kind in (("PF_RT", "enc", "std", "reencoded-document-differs"),
                                  ("PF_RTS", "senc", "strict", "strictly-decoded-reencoded-document-differs")):
        for i in by_size(ev[key]):
            j, r = camp.jobs[i], camp.results[i]
            for d in accepted[i]:
                x = r["res"][d]
                if x[tag] == "ok" and x[which] is not None:
                    diffs = le_null_diffs(j["pydocs"][d], x[which])
                    if diffs:
                        counts["reencoded_differs" if tag == "std" else "strict_reencoded_differs"] += 1
                        for cause in sorted({classify_diff(x_) for x_ in diffs}):
                            diff = [x_ for x_ in diffs if classify_diff(x_) == cause][0]
                            if cause == "null-replaced-by-zero-value":
                                cause += ":" + batch.schemas[j["sid"]][1]
                            report({"kind": kind, "cause": cause}, i, d,
                                   {"difference": {"path": list(diff[0]), "original": diff[1], "reencoded": diff[2]}})
    for i, d, tag in reencoded_rejected[:60]:
        j, r = camp.jobs[i], camp.results[i]
        x = r["res"][d]
        diffs = le_null_diffs(j["pydocs"][d], x["enc" if tag == "std" else "senc"])
        cause = classify_diffs(diffs)
        from checks import c08
        if not diffs and batch.schemas[j["sid"]][1] == "cue" and c08.has_fraction_zero(j["docs"][d]):
            cause = "integral-float-printed-without-fraction:cue"
        report({"kind": "reencoded-document-rejected-by-source-schema" + ("" if tag == "std" else "(strict)"),
                "cause": cause}, i, d,
               {"differences": [{"path": list(p_), "original": a_, "reencoded": b_} for p_, a_, b_ in diffs]})
    # generated code that does not compile cannot decode anything
    from checks import c13
    for sid, err in list(batch.compile_errors.items())[:5]:
        verdict.propfail({"kind": "generated-package-does-not-compile", "cause": c13.compile_cause(err)},
                         {"job": {"fmt": batch.schemas[sid][1], "pkg": sid, "schema_text": camp.texts[sid], "type": "Root",
                                  "docs": [], "meta": {}}, "observed": err[:1500]})
    for sid, imps in list(batch.import_fixups.items())[:3]:
        verdict.propfail({"kind": "generated-package-does-not-compile", "cause": "unused-import-" + "-".join(sorted(set(imps)))},
                         {"job": {"fmt": batch.schemas[sid][1], "pkg": sid, "schema_text": camp.texts[sid], "type": "Root",
                                  "docs": [], "meta": {}}, "observed": "imported and not used: %s" % imps})
    dead = [i for i, r in enumerate(camp.results) if r is None]
    for i in dead[:3]:
        verdict.propfail({"kind": "driver-process-died", "cause": "fatal"},
                         {"job": camp.job_payload(i), "observed": "driver process died (fatal error) or timed out"})

    mm = sorted(set(ev["MM_STD"]) | set(ev["MM_STRICT"]) | set(ev["MM_SPEC01"]))
    unexplained = [{"job": camp.job_payload(i), "observed": camp.results[i],
                    "which": [k for k in ("MM_STD", "MM_STRICT", "MM_SPEC01") if i in ev[k]]} for i in mm[:20]]

    # ---- the in-process harness produces what the real CLI produces
    sample = [sid for sid, _ in plan][:: max(1, len(plan) // (30 if thorough else 6))]
    cli = gencode.cli_crosscheck(ctx, batch, sample)
    ctx.log("cog CLI cross-check: %d pipelines, %d identical" % (cli["checked"], cli["identical"]))
    for dif in cli["differences"][:3]:
        verdict.unproved("correspondence", {"theorem": "in-process harness (verifh_gen gen) == `cog generate` CLI output",
                                            "first_mismatch": dif})

    # ---- src_valid stream: coq Src.valid against the reference validators (all generated documents)
    src_stats = src_valid_stream(ctx, camp, plan, live, verdicts)

    # ---- front-end models: coq parse_jsonschema / parse_openapi vs the pre-chain IR of the real front-ends
    fe_plan = list(plan) + [(sid, job["meta"]["src_gallina"].replace(job.get("orig_pkg", sid), sid))
                            for sid, job in replay_jobs if (job.get("meta") or {}).get("src_gallina")]
    fe = frontend_stream(ctx, camp, fe_plan)
    ctx.log("front-end models: " + json.dumps(fe["per_format"]))
    fe_mismatches = [{"job": {"fmt": m["fmt"], "pkg": m["pkg"], "schema_text": m["schema_text"], "type": "Root", "docs": [],
                              "meta": {"what": m.get("what", "pre-chain IR differs from Model/FrontEnd.v"),
                                       "src_gallina": m["src_gallina"]}},
                      "which": [{"jsonschema": "MM_FE_JS", "openapi": "MM_FE_OA", "cue": "MM_FE_CUE"}[m["fmt"]]]} for m in fe["mismatching"][:10]]
    for ex in src_stats.get("parse_preserves_acceptance_examples", [])[:5]:
        fe_mismatches.append({"job": {"fmt": ex["fmt"], "pkg": ex["pkg"], "schema_text": ex["schema_text"], "type": "Root",
                                      "docs": [ex["doc"]], "meta": {"what": "src_valid <> ir_accepts (parse_%s s)" % ex["fmt"]}},
                              "which": ["MM_FE_ACCEPT"]})

    # ---- coverage
    unm = set(ev["UNM"])
    schema_by = {sid: s for sid, s in plan}
    distinct, nontriv = set(), 0
    cons_hist, kind_hist, out_hist = {}, {}, {}
    for i, keep in accepted.items():
        j, r = camp.jobs[i], camp.results[i]
        s = schema_by.get(j["sid"])
        for d in keep:
            x = r["res"][d]
            kind_hist[(j["meta"].get("kinds") or ["replay"] * 9)[d]] = kind_hist.get((j["meta"].get("kinds") or ["replay"] * 9)[d], 0) + 1
            key = "std_%s/strict_%s" % (x["std"], x["strict"])
            out_hist[key] = out_hist.get(key, 0) + 1
            h = core.canon_hash([j["sid"], j["docs"][d]])
            if h in distinct or i in unm:
                continue
            distinct.add(h)
            cs = set()
            if s is not None:
                try:
                    cs = srcgen.constructs(s, j["pydocs"][d], j["type"])
                except Exception:
                    pass
            for c in cs:
                cons_hist[c] = cons_hist.get(c, 0) + 1
            if len(cs) >= 3:
                nontriv += 1
    gen_hist = {}
    for sid, g in batch.gen.items():
        key = batch.schemas[sid][1] + ":" + (g.status if g.status == "OK" else g.status + "@" + g.stage)
        gen_hist[key] = gen_hist.get(key, 0) + 1
    samples = []
    for i in list(accepted)[:3]:
        d = accepted[i][0]
        x = camp.results[i]["res"][d]
        samples.append({"format": batch.schemas[camp.jobs[i]["sid"]][1], "doc": camp.jobs[i]["docs"][d], "std": x["std"],
                        "strict": x["strict"], "reencoded": srcgen.dumps(x["enc"]) if x["enc"] is not None else None})
    cov = {
        "evaluations": n_acc,
        "documents_generated": n_docs,
        "distinct_nontrivial": nontriv,
        "rule": "one evaluation = one document accepted by the reference validator of its schema language, decoded by both decoders of the generated root type and re-encoded; distinct by hash of (schema, document); non-trivial = the document exercises >= 3 distinct constructs of its schema; unmodelled groups not counted",
        "samples": samples,
        "schemas": len(batch.schemas),
        "cog_outcomes_by_format": gen_hist,
        "packages_not_compiling": len(batch.compile_errors),
        "packages_with_unused_import_removed": len(batch.import_fixups),
        "document_kind_histogram": kind_hist,
        "construct_histogram": cons_hist,
        "outcome_histogram": out_hist,
        "property_failures_counted": counts,
        "src_valid_vs_reference": src_stats,
        "front_end_models": {"per_format": fe["per_format"], "mismatching_schemas": len(fe["mismatching"])},
        "cli_crosscheck": cli,
        "unmodelled_groups": len(ev["UNM"]),
        "mismatches_model_vs_impl": {k: len(ev[k]) for k in ("MM_STD", "MM_STRICT", "MM_SPEC01")},
        "groups_with_a_document_in_the_safe_fragment_of_go_roundtrip_nf_partial": len(ev["SAFE"]),
        "groups_with_a_property_failure_inside_the_safe_fragment": len(ev["PF_SAFE"]),
        "propfail_groups": {k: len(ev[k]) for k in ("PF_STD", "PF_STRICT", "PF_RT", "PF_RTS")},
        "cases_validated_against_impl": len(accepted) - len([i for i in accepted if i in unm]) - len(mm),
    }
    unexplained = unexplained + fe_mismatches
    return {"coverage": cov, "unexplained_mismatches": unexplained,
            "search_note": "generated schemas (3 formats) x documents accepted by the reference validators; decode / strict decode / re-encode / re-validate on the real generated code"}


def src_valid_stream(ctx, camp, plan, live, verdicts):
    """coq Src.valid (Model/Src.v) evaluated on every generated document and compared with the verdict of
    the schema language's reference validator; disagreements are reported in the evidence (they qualify
    the parse-level statements only: acceptance in the property always comes from the validators)."""
    schema_by = {sid: s for sid, s in plan}
    cases, owners = [], []
    for i, v in zip(live, verdicts):
        j = camp.jobs[i]
        s = schema_by.get(j["sid"])
        if s is None or v is None:
            continue
        for d, doc in enumerate(j["pydocs"]):
            if d >= len(v):
                continue
            cases.append("(%s, %s, %s, %s, %s)" % (srcgen.src_to_gallina(s), srcgen.g_str(s.get("fmt", "jsonschema")),
                                                   srcgen.g_str(j["type"]), srcgen.doc_to_gallina(doc),
                                                   "true" if v[d] == "1" else "false"))
            owners.append((i, d))
    if not cases:
        return {"documents": 0}
    shard = 400
    shards = [list(range(k, min(k + shard, len(cases)))) for k in range(0, len(cases), shard)]

    def do(k):
        ids = shards[k]
        pre = ("From Coq Require Import List String ZArith Bool.\nFrom Cog Require Import Model.Json Model.Src Model.FrontEnd Model.FrontEndSpec Model.FrontEndSpecOA Model.FrontEndSpecCue.\nImport ListNotations.\nLocal Open Scope string_scope.\n"
               "Definition cases : list (src_schema * string * string * json * bool) :=\n[%s].\n" % ";\n".join(cases[x] for x in ids))
        pre += ("Fixpoint indices_from {A} (f : A -> bool) (l : list A) (i : nat) : list nat :=\n"
                "  match l with [] => [] | x :: r => if f x then i :: indices_from f r (S i) else indices_from f r (S i) end.\n")
        r = core.coq_eval_lists(ctx, "srcvalid_%d" % k, pre, [("DIS", "indices_from src_valid_disagrees cases 0"),
                                                             ("ACC", "indices_from fe_accept_disagrees cases 0"),
                                                             ("DOM", "indices_from fe_accept_in_domain cases 0"),
                                                             ("DOMW", "indices_from fe_accept_weak_domain cases 0"),
                                                             ("ACCOA", "indices_from fe_oa_accept_disagrees cases 0"),
                                                             ("DOMOA", "indices_from fe_oa_accept_in_domain cases 0"),
                                                             ("ACCCUE", "indices_from fe_cue_accept_disagrees cases 0"),
                                                             ("DOMCUE", "indices_from fe_cue_accept_in_domain cases 0")])
        return ([ids[x] for x in r["DIS"]], [ids[x] for x in r["ACC"]], len(r["DOM"]), len(r["DOMW"]),
                [ids[x] for x in r["ACCOA"]], len(r["DOMOA"]), [ids[x] for x in r["ACCCUE"]], len(r["DOMCUE"]))

    parts = core.parallel(do, list(range(len(shards))))
    dis = sorted(x for part in parts for x in part[0])
    acc = sorted(x for part in parts for x in part[1])
    dom = sum(part[2] for part in parts)
    domw = sum(part[3] for part in parts)
    acc_oa = sorted(x for part in parts for x in part[4])
    dom_oa = sum(part[5] for part in parts)
    acc_cue = sorted(x for part in parts for x in part[6])
    dom_cue = sum(part[7] for part in parts)
    by_fmt = {}
    examples = []
    for x in dis:
        i, d = owners[x]
        fmt = schema_by[camp.jobs[i]["sid"]].get("fmt", "?")
        by_fmt[fmt] = by_fmt.get(fmt, 0) + 1
        if len(examples) < 4:
            examples.append({"format": fmt, "doc": camp.jobs[i]["docs"][d]})
    acc_examples = []
    for x in acc_cue[:4]:
        i, d = owners[x]
        acc_examples.append({"fmt": "cue", "pkg": camp.jobs[i]["sid"], "schema_text": camp.texts[camp.jobs[i]["sid"]],
                             "doc": camp.jobs[i]["docs"][d]})
    for x in acc_oa[:4]:
        i, d = owners[x]
        acc_examples.append({"fmt": "openapi", "pkg": camp.jobs[i]["sid"], "schema_text": camp.texts[camp.jobs[i]["sid"]],
                             "doc": camp.jobs[i]["docs"][d]})
    for x in acc[:4]:
        i, d = owners[x]
        acc_examples.append({"fmt": "jsonschema", "pkg": camp.jobs[i]["sid"], "schema_text": camp.texts[camp.jobs[i]["sid"]],
                             "doc": camp.jobs[i]["docs"][d]})
    return {"documents": len(cases), "disagreements": len(dis), "disagreements_by_format": by_fmt, "examples": examples,
            "parse_preserves_acceptance_documents_in_domain": dom, "parse_preserves_acceptance_counterexamples": len(acc),
            # documents meeting every hypothesis of the PROVED theorem parse_preserves_acceptance_partial_weak
            "parse_preserves_acceptance_documents_in_proved_domain": domw,
            "parse_openapi_preserves_acceptance_documents_in_domain": dom_oa,
            "parse_openapi_preserves_acceptance_counterexamples": len(acc_oa),
            "parse_cue_preserves_acceptance_documents_in_domain": dom_cue,
            "parse_cue_preserves_acceptance_counterexamples": len(acc_cue),
            "parse_preserves_acceptance_examples": acc_examples}


FE_FN = {"jsonschema": ("parse_jsonschema", "fe_js_unmodelled", "fe_js_mismatch"),
         "openapi": ("parse_openapi", "fe_oa_unmodelled", "fe_oa_mismatch"),
         "cue": ("parse_cue", "fe_cue_unmodelled", "fe_cue_mismatch")}


def _src_term(s):
    """a Src schema (srcgen dict) or, in a replay, its Gallina text"""
    return s if isinstance(s, str) else srcgen.src_to_gallina(s)


def frontend_stream(ctx, camp, plan, verbose=False, formats=("jsonschema", "openapi", "cue")):
    """coq/Model/FrontEnd.v parse_<fmt> evaluated on every generated Src schema and compared, inside Coq, with the
    PRE-chain IR the real front-end produced (harness `gen`, codegen.Pipeline.LoadSchemas).  Returns counts per format
    (schemas, unmodelled, mismatches) and the mismatching schemas (replayable: format + schema text)."""
    batch = camp.batch
    by_fmt = {}
    for sid, s in plan:
        fmt = batch.schemas[sid][1]
        if fmt in formats and sid in batch.gen:
            by_fmt.setdefault(fmt, []).append((sid, s))
    out = {"per_format": {}, "examples": [], "mismatching": []}
    for fmt, items in by_fmt.items():
        parse, f_unm, f_mm = FE_FN[fmt]
        cases = []
        cue_rejected = 0
        if fmt == "cue":
            # what cog's CUE front-end refuses (structural cycles, ...) is not modelled: counted, not compared
            cue_rejected = len([1 for sid, _ in items if batch.gen[sid].status != "OK"])
            items = [(sid, s_) for sid, s_ in items if batch.gen[sid].status == "OK"]
        for sid, s in items:
            g = batch.gen[sid]
            obs = "(Some %s)" % g.pre_ir if g.status == "OK" else "None"
            cases.append("(%s, %s)" % (_src_term(s), obs))
        shard = 25
        shards = [list(range(k, min(k + shard, len(cases)))) for k in range(0, len(cases), shard)]

        def do(k, fmt=fmt, cases=cases, shards=shards, f_unm=f_unm, f_mm=f_mm):
            ids = shards[k]
            pre = ("From Coq Require Import List String ZArith Bool.\nFrom Cog Require Import Model.IR Model.Json Model.Src Model.FrontEnd Model.FrontEndSpec Model.FrontEndSpecOA Model.FrontEndCue.\n"
                   "Import ListNotations.\nLocal Open Scope string_scope.\n"
                   "Definition cases : list (src_schema * option schemas) :=\n[%s].\n" % ";\n".join(cases[x] for x in ids))
            pre += ("Fixpoint indices_from {A} (f : A -> bool) (l : list A) (i : nat) : list nat :=\n"
                    "  match l with [] => [] | x :: r => if f x then i :: indices_from f r (S i) else indices_from f r (S i) end.\n")
            defs = [("UNM", "indices_from %s cases 0" % f_unm), ("MM", "indices_from %s cases 0" % f_mm)]
            if fmt == "jsonschema":
                # parse_jsonschema_keeps_constraints on data: KEPT_BAD must stay empty; TA = the refuting shape occurs
                defs += [("KEPT_BAD", "indices_from (fun c => src_wf (fst c) && schema_no_constrained_typearray (fst c) && negb (schema_fields_kept (fst c)))%bool cases 0"),
                         ("TA", "indices_from (fun c => src_wf (fst c) && negb (schema_no_constrained_typearray (fst c)) && negb (schema_fields_kept (fst c)))%bool cases 0"),
                         ("WF", "indices_from (fun c => src_wf (fst c)) cases 0"),
                         # members meeting the hypotheses of parse_jsonschema_keeps_constraints_partial_weak
                         ("KDOM", "map (fun c => if src_wf (fst c) then schema_kept_domain (fst c) else O) cases"),
                         ("KCEX", "map (fun c => if src_wf (fst c) then schema_kept_counterexamples (fst c) else O) cases")]
            if fmt == "openapi":
                # parse_openapi_keeps_constraints on data: KEPT_BAD must stay empty
                defs += [("KEPT_BAD", "indices_from (fun c => src_wf_oa (fst c) && negb (oa_schema_fields_kept (fst c)))%bool cases 0"),
                         ("WF", "indices_from (fun c => src_wf_oa (fst c)) cases 0")]
            r = core.coq_eval_lists(ctx, "fe_%s_%d" % (fmt, k), pre, defs)
            extra = {k_: [ids[x] for x in r[k_]] for k_ in ("KEPT_BAD", "TA", "WF") if k_ in r}
            extra["KDOM"] = sum(r.get("KDOM", []))
            extra["KCEX"] = sum(r.get("KCEX", []))
            return [ids[x] for x in r["UNM"]], [ids[x] for x in r["MM"]], extra

        parts = core.parallel(do, list(range(len(shards))))
        unm = sorted(x for p_ in parts for x in p_[0])
        mm = sorted(x for p_ in parts for x in p_[1])
        rejected = sum(1 for sid, _ in items if batch.gen[sid].status != "OK")
        out["per_format"][fmt] = {"schemas": len(items) + cue_rejected, "rejected_by_cog": rejected + cue_rejected,
                                  "unmodelled": len(unm) + cue_rejected, "mismatches": len(mm)}
        if fmt == "jsonschema":
            kb = sorted(x for p_ in parts for x in p_[2].get("KEPT_BAD", []))
            out["per_format"][fmt].update({
                "well_formed_schemas": sum(len(p_[2].get("WF", [])) for p_ in parts),
                "keeps_constraints_counterexamples_outside_the_excluded_shape": len(kb),
                "keeps_constraints_members_in_proved_domain": sum(p_[2].get("KDOM", 0) for p_ in parts),
                "keeps_constraints_members_in_proved_domain_not_kept": sum(p_[2].get("KCEX", 0) for p_ in parts),
                "schemas_with_the_constrained_type_array_shape_losing_constraints": sum(len(p_[2].get("TA", [])) for p_ in parts)})
        if fmt == "openapi":
            kb = sorted(x for p_ in parts for x in p_[2].get("KEPT_BAD", []))
            out["per_format"][fmt].update({"well_formed_schemas": sum(len(p_[2].get("WF", [])) for p_ in parts),
                                           "keeps_constraints_counterexamples": len(kb)})
        if fmt in ("jsonschema", "openapi"):
            for x in kb:
                out["mismatching"].append({"fmt": fmt, "pkg": items[x][0], "schema_text": camp.texts[items[x][0]],
                                           "what": "field facts not kept", "src_gallina": _src_term(items[x][1])})
        for x in mm:
            sid, s = items[x]
            out["mismatching"].append({"fmt": fmt, "pkg": sid, "schema_text": camp.texts[sid], "src_gallina": _src_term(s)})
            if verbose and len(out["examples"]) < 3:
                body = ("From Coq Require Import List String ZArith Bool.\nFrom Cog Require Import Model.IR Model.Json Model.Src Model.FrontEnd Model.FrontEndCue.\n"
                        "Import ListNotations.\nLocal Open Scope string_scope.\nEval vm_compute in (%s %s).\n" % (parse, _src_term(s)))
                path = os.path.join(ctx.scratch, "fe_dbg_%s.v" % sid)
                open(path, "w").write(body)
                rc, o = core.coqc_file(path)
                out["examples"].append({"format": fmt, "schema_text": camp.texts[sid], "model": re.sub(r"\s+", " ", o),
                                        "observed": batch.gen[sid].pre_ir if batch.gen[sid].status == "OK" else batch.gen[sid].message})
    return out
