(* C14 — additions for coq/Props/C14.v (paste after `convert_then_build_partial`; needs the extra imports
   Model.ConverterSpec Proofs.ConverterWhole).  Compiles stand-alone: coqc -Q coq Cog scratch_props_additions_C14.v *)
From Coq Require Import List String ZArith Bool.
From Cog Require Import Model.IR Model.Json Model.Builders Model.BuildersEq Model.Spec16 Model.GoSem
  Model.BuilderEval Model.BuilderSpec Model.Converter Model.ConverterSpec
  Proofs.BuilderEvalProofs Proofs.ConverterProofs Proofs.ConverterWhole.
Import ListNotations.
Local Open Scope string_scope.

(* END TO END, for every builder whose options are the options FromAST derives for a list of fields with distinct
   non-empty names (what converter_shape_of_derived_builders gives for every from_ast builder) and every value
   v satisfying the decidable conv_safe (Model/ConverterSpec.v: per field, either the option's guards hold and the
   printed argument, stored by the option, is the value read -- or they do not hold and the field already holds
   the constructor's value; scalar-like fields without builders): the converter returns a builder expression
   whose execution (C09 builder_eval) yields an object equal to v at EVERY field the builder has an option for;
   Build() is Validate() of that object. *)
Theorem convert_then_build_partial_whole : forall e b fs v st0,
  locate_builder (be_builders e) (builder_for_pkg b) (b_name b) = Some b ->
  Forall2 (fun f o => struct_field_to_option f = Ok o) fs (b_options b) ->
  NoDup (map f_name fs) -> (forall f, In f fs -> f_name f <> "") ->
  ct_args (b_ctor b) = [] -> cv_ctor_args (from_builder e b) = [] ->
  go_new_builder e b [] = GOk st0 -> is_struct_val (bs_obj st0) = true ->
  conv_safe e b fs (b_options b) v (bs_obj st0) = true ->
  exists calls stn,
    converter_output e (builder_for_pkg b) (b_name b) v = GOk (BBuild (builder_for_pkg b) (b_name b) [] calls) /\
    builder_eval e (builder_for_pkg b) (b_name b) [] calls = GOk (stn, go_build e b stn) /\
    forall f, In f fs -> obj_field (bs_obj stn) (f_name f) = obj_field v (f_name f).
Proof. exact convert_then_build_partial_whole_proof. Qed.
Print Assumptions convert_then_build_partial_whole.

(* non-vacuity: the builder of the C14 example; conv_safe holds for a value that differs from the defaults in
   both fields and for the default value itself, and fails for the witness of convert_then_build_refuted *)
Definition c14w_ctx : schemas :=
  [mkSchema "p" {| m_kind := "" ; m_variant := "" ; m_identifier := "" |} "" ty_zero
     [("Root", mkObject "Root" [] (TStruct A0 [] [
          mkField "name" [] (TScalar {| nullable := false ; dflt := DStr "d" ; hints := [] |} KString DNil []) true;
          mkField "size" [] (TScalar {| nullable := true ; dflt := DNil ; hints := [] |} KInt64 DNil []) false]) "p" "Root")]].
Definition c14w_env : benv :=
  mkBEnv c14w_ctx (match from_ast c14w_ctx with Ok bs => bs | _ => [] end)
         [("p", "Root", GStruct [("name", GStr "d"); ("size", GNil)])].
Definition c14w_fields : list field :=
  match c14w_ctx with [s] => match s_objects s with [(_, o)] => match o_type o with TStruct _ _ fs => fs | _ => [] end | _ => [] end | _ => [] end.

Example c14_whole_nonvacuous :
  exists b, be_builders c14w_env = [b] /\
    conv_safe c14w_env b c14w_fields (b_options b) (GStruct [("name", GStr "abc"); ("size", GPtr (GInt 5))])
              (GStruct [("name", GStr "d"); ("size", GNil)]) = true /\
    conv_safe c14w_env b c14w_fields (b_options b) (GStruct [("name", GStr "d"); ("size", GNil)])
              (GStruct [("name", GStr "d"); ("size", GNil)]) = true /\
    conv_safe c14w_env b c14w_fields (b_options b) (GStruct [("name", GStr ""); ("size", GNil)])
              (GStruct [("name", GStr "d"); ("size", GNil)]) = false /\
    Forall2 (fun f o => struct_field_to_option f = Ok o) c14w_fields (b_options b) /\
    cv_ctor_args (from_builder c14w_env b) = [] /\
    go_new_builder c14w_env b [] = GOk (mkBState (GStruct [("name", GStr "d"); ("size", GNil)]) []).
Proof. eexists. vm_compute. repeat split. repeat constructor. Qed.
