#!/usr/bin/env python3
"""Single entry point of the verification machinery.

  ./check.py Cxx [--tier quick|thorough] [--seed N] [--replay FILE]
  ./check.py --setup          build the Coq development and warm the Go build cache
  ./check.py --audit          grep the development for forbidden constructs; optional coqchk
"""
import argparse
import importlib
import json
import os
import re
import subprocess
import sys
import time
import traceback

sys.path.insert(0, os.path.dirname(os.path.abspath(__file__)))
from vlib import core  # noqa: E402

FORBIDDEN = r"\b(Admitted|admit|Axiom|Axioms|Parameter|Parameters|Conjecture|Conjectures|Hypothesis|Hypotheses|Variable|Variables|Unset\s+Guard|bypass_check|Admit\s+Obligations|Unset\s+Universe\s+Checking|Unset\s+Positivity)\b"


def audit(verbose=True):
    """No Admitted/admit/Axiom/Parameter/Conjecture, no Variable/Hypothesis outside a Section,
    no kernel-check switches anywhere under coq/."""
    bad = []
    for rel in core.coq_project_files():
        text = open(os.path.join(core.COQ, rel)).read()
        text_nc = re.sub(r"\(\*.*?\*\)", lambda m: re.sub(r"[^\n]", " ", m.group(0)), text, flags=re.S)
        text_nc = re.sub(r'"(?:[^"]|"")*"', lambda m: re.sub(r"[^\n]", " ", m.group(0)), text_nc)
        depth = 0
        for ln, line in enumerate(text_nc.split("\n"), 1):
            if re.match(r"\s*Section\b", line):
                depth += 1
            if re.match(r"\s*End\b", line) and depth > 0:
                depth -= 1
            for m in re.finditer(FORBIDDEN, line):
                w = m.group(1)
                if w.startswith(("Variable", "Hypothes")) and depth > 0:
                    continue
                bad.append("%s:%d: %s" % (rel, ln, w))
        # every theorem of a Props file prints its assumptions right after its proof
        if rel.startswith("Props/"):
            names = [(m.start(), m.group(1)) for m in re.finditer(r"^(?:Theorem|Lemma)\s+(\w+)", text_nc, re.M)]
            for i, (pos, name) in enumerate(names):
                end = names[i + 1][0] if i + 1 < len(names) else len(text_nc)
                if ("Print Assumptions %s." % name) not in text_nc[pos:end]:
                    bad.append("%s: theorem %s has no Print Assumptions" % (rel, name))
    if verbose:
        for b in bad:
            print("AUDIT:", b)
        print("audit: %d forbidden constructs in %d files" % (len(bad), len(core.coq_project_files())))
    return bad


def claimed_properties():
    m = json.load(open(os.path.join(core.VERIF, "MANIFEST.json")))
    return [c["property_id"] for c in m.get("checks", [])]


def setup():
    """Build what the registered checks need: regenerate their Gen tables, full .vo build of their
    targets (files of checks that are not registered yet are not built), warm the Go build cache."""
    t0 = time.time()
    targets = []
    for prop in claimed_properties():
        mod = importlib.import_module("checks." + prop.lower())
        if hasattr(mod, "regen"):
            ctx = core.Ctx(prop, "quick", 0)
            try:
                mod.regen(ctx)
            finally:
                ctx.cleanup()
        for t in mod.COQ_TARGETS:
            if t not in targets:
                targets.append(t)
    ok, log = core.coq_make(targets)
    print(log[-3000:])
    if not ok:
        print("setup: coq build FAILED")
        return 1
    ctx = core.Ctx("SETUP", "quick", 0)
    try:
        for name in sorted(os.listdir(os.path.join(core.VERIF, "harness"))):
            if name == "inject" or not os.path.isdir(os.path.join(core.VERIF, "harness", name)):
                continue
            try:
                core.build_harness(ctx, name)
            except core.HarnessBuildError as e:
                print("setup: harness %s does not build (not fatal here; its check will report it):\n%s" % (name, str(e)[-800:]))
    finally:
        ctx.cleanup()
    bad = audit()
    print("setup done in %.1fs" % (time.time() - t0))
    return 1 if bad else 0


def run_property(prop, tier, seed, replay):
    mod = importlib.import_module("checks." + prop.lower())
    ctx = core.Ctx(prop, tier, seed)
    verdict = core.Verdict(ctx)
    rc = 2
    try:
        if hasattr(mod, "regen"):
            mod.regen(ctx)
        ok, log = core.coq_make(mod.COQ_TARGETS)
        obligation = None
        if not ok:
            rel, name, excerpt = core.locate_coq_failure(log)
            obligation = {"file": rel, "theorem": name, "coqc": excerpt}
            ctx.log("proof obligation no longer checks:", rel, name)
        pc = core.props_check(ctx, mod.PROPS) if ok else {"ok": False, "theorems": re.findall(
            r"^(?:Theorem|Lemma)\s+(\w+)", open(os.path.join(core.COQ, mod.PROPS)).read(), re.M),
            "assumptions": [], "error": None, "failing_theorem": None}
        if ok and not pc["ok"]:
            obligation = {"file": mod.PROPS, "theorem": pc["failing_theorem"], "coqc": pc["error"]}
        ctx.obligation = obligation     # a check whose case files import Proofs modules must not rely on them then
        res = mod.run(ctx, verdict, replay=replay, model_ok=(obligation is None or obligation["file"] is None or not obligation["file"].startswith("Model/")))
        # res: dict(coverage=..., unexplained_mismatches=[...], assumptions=[...])
        n_fail_inputs = len(verdict.violations)
        if obligation is not None and n_fail_inputs == 0:
            verdict.unproved("obligation", {"theorem": obligation["theorem"], "file": obligation["file"],
                                            "coqc_error": obligation["coqc"],
                                            "searched": res.get("search_note", "correspondence cases of this run")})
        um = res.get("unexplained_mismatches", [])
        if um and n_fail_inputs == 0:
            verdict.unproved("correspondence", {"theorem": "correspondence model<->implementation (%s)" % mod.PROPS,
                                               "first_mismatch": um[0], "mismatches": len(um),
                                               "searched": res.get("search_note", "correspondence cases of this run")})
        cov = res["coverage"]
        nth = len(pc["theorems"]) + int(cov.pop("extra_obligations", 0))
        cov.setdefault("obligations", nth)
        cov.setdefault("discharged", nth if obligation is None else max(0, nth - 1))
        cov.setdefault("checker_cmd", "make -f Makefile.coq -j%d %s && coqc -Q coq Cog coq/%s  (Coq 8.16.1, full .vo build); correspondence: coqc on generated cases_*.v (vm_compute)" % (core.NCPU, " ".join(mod.COQ_TARGETS), mod.PROPS))
        cov.setdefault("trusted_base", core.KERNEL_TB + list(getattr(mod, "TRUSTED", [])))
        cov["theorems"] = pc["theorems"]
        cov["print_assumptions"] = pc["assumptions"]
        cov["known_findings_hit"] = sorted(verdict.known_hit)
        rc = verdict.finish()
        core.write_evidence(ctx, cov, res.get("assumptions", list(getattr(mod, "ASSUMPTIONS", []))), len(verdict.violations))
    except Exception:
        traceback.print_exc()
        print("check %s: internal error" % prop)
        rc = 2
    finally:
        ctx.cleanup()
    return rc


def main():
    ap = argparse.ArgumentParser()
    ap.add_argument("prop", nargs="?")
    ap.add_argument("--tier", default=os.environ.get("VERIF_TIER", "quick"))
    ap.add_argument("--seed", type=int, default=None)
    ap.add_argument("--replay")
    ap.add_argument("--setup", action="store_true")
    ap.add_argument("--audit", action="store_true")
    a = ap.parse_args()
    os.chdir(core.VERIF)
    if a.setup:
        sys.exit(setup())
    if a.audit:
        sys.exit(1 if audit() else 0)
    if not a.prop:
        ap.error("property id required")
    seed = a.seed if a.seed is not None else int(os.environ.get("VERIF_SEED", "0") or 0)
    tier = a.tier if a.tier in ("quick", "thorough") else "quick"
    sys.exit(run_property(a.prop.upper(), tier, seed, a.replay))


if __name__ == "__main__":
    main()
