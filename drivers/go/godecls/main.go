// godecls: lists what a generated Go file DECLARES (used by checks/c02_decls.py to compare the real output of the
// Go types jenny with coq/Model/GoDecl.v).  Arguments: files.  Output: one JSON object {file: [decl, ...]} where a
// decl is "type:X", "const:X", "func:F" or "method:Recv.Name"; struct field names as "field:X.F".
package main

import (
	"encoding/json"
	"fmt"
	"go/ast"
	"go/parser"
	"go/token"
	"os"
	"sort"
)

func main() {
	out := map[string][]string{}
	fset := token.NewFileSet()
	for _, path := range os.Args[1:] {
		f, err := parser.ParseFile(fset, path, nil, 0)
		if err != nil {
			out[path] = []string{"parse-error:" + err.Error()}
			continue
		}
		var ds []string
		for _, d := range f.Decls {
			switch x := d.(type) {
			case *ast.GenDecl:
				for _, sp := range x.Specs {
					switch s := sp.(type) {
					case *ast.TypeSpec:
						ds = append(ds, "type:"+s.Name.Name)
						if st, ok := s.Type.(*ast.StructType); ok && st.Fields != nil {
							for _, fl := range st.Fields.List {
								for _, n := range fl.Names {
									ds = append(ds, "field:"+s.Name.Name+"."+n.Name)
								}
							}
						}
					case *ast.ValueSpec:
						if x.Tok == token.CONST {
							for _, n := range s.Names {
								ds = append(ds, "const:"+n.Name)
							}
						}
					}
				}
			case *ast.FuncDecl:
				if x.Recv == nil || len(x.Recv.List) == 0 {
					ds = append(ds, "func:"+x.Name.Name)
					continue
				}
				t := x.Recv.List[0].Type
				if st, ok := t.(*ast.StarExpr); ok {
					t = st.X
				}
				if id, ok := t.(*ast.Ident); ok {
					ds = append(ds, "method:"+id.Name+"."+x.Name.Name)
				}
			}
		}
		sort.Strings(ds)
		out[path] = ds
	}
	b, _ := json.Marshal(out)
	fmt.Println(string(b))
}
