module godecls

go 1.21
