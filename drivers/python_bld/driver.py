"""Driver for cog-generated PYTHON builders (C09).  usage: driver.py <dir containing the generated package> <package name>

stdin: one JSON job per line
    {"id": "...", "op": "run", "prog": PROG, "steps": bool}
        PROG = {"b": "<module>.<Class>", "ctor": [ARG...], "calls": [{"m": "<method>", "name": "<IR option name>", "args": [ARG...]}, ...]}
        ARG  = {"v": <json>} | {"b": PROG} | {"l": [ARG...]} | {"m": [[key, ARG]...]}
      -> {"id", "known": true, "states": [DUMP of builder._internal after the constructor, (per call), last],
          "call": "ok" | "raise", "raised": "<exception class>", "raised_at": index of the call (-1: constructor; nested
          builders count for the call whose argument they are), "calls_done": n,
          "build": {"s": "ok"|"raise", "dump": DUMP, "json": <generated encoder output>}}
    {"id": "...", "op": "default", "t": "<module>.<Class>"}   ->  {"dump": DUMP, "json": ...}   of models.<module>.<Class>()

DUMP: {"k":"nil"} | {"k":"bool","v":b} | {"k":"int","v":"<decimal>"} | {"k":"float","v":"<repr>"} | {"k":"str","v":s} |
      {"k":"slice","v":[DUMP]} | {"k":"map","v":[[key,DUMP]...] sorted} |
      {"k":"struct","cls":"<Class>","v":[[json name, DUMP]...]}   (the members to_json() reports, nested objects dumped
                                                                   recursively; a member to_json() omits is None)
      {"k":"other","v":"<type name>"}
"""
import enum
import importlib
import json
import keyword
import sys


def dump(v):
    if v is None:
        return {"k": "nil"}
    if isinstance(v, enum.Enum):
        return dump(v.value)
    if isinstance(v, bool):
        return {"k": "bool", "v": v}
    if isinstance(v, int):
        return {"k": "int", "v": str(v)}
    if isinstance(v, float):
        return {"k": "float", "v": repr(v)}
    if isinstance(v, str):
        return {"k": "str", "v": v}
    if isinstance(v, (list, tuple)):
        return {"k": "slice", "v": [dump(x) for x in v]}
    if isinstance(v, dict):
        return {"k": "map", "v": [[str(k), dump(x)] for k, x in sorted(v.items(), key=lambda kv: str(kv[0]))]}
    if hasattr(v, "to_json") and callable(v.to_json):
        payload = v.to_json()
        if isinstance(payload, dict):
            return {"k": "struct", "cls": type(v).__name__, "v": [[k, dump(x)] for k, x in payload.items()]}
        return {"k": "union", "cls": type(v).__name__, "v": dump(payload)}
    return {"k": "other", "v": type(v).__name__}


class Unknown(Exception):
    pass


class Raised(Exception):
    def __init__(self, exc):
        self.exc = exc


class Driver:
    def __init__(self, pkg):
        self.pkg = pkg
        self.encoder = importlib.import_module(pkg + ".cog.encoder").JSONEncoder

    def builder_class(self, key):
        mod, cls = key.split(".")
        try:
            m = importlib.import_module("%s.builders.%s" % (self.pkg, mod))
        except ImportError as e:
            raise Unknown("module %s: %r" % (mod, e))
        if not hasattr(m, cls):
            raise Unknown("no builder class " + key)
        return getattr(m, cls)

    def arg(self, a):
        if "b" in a:
            return self.construct(a["b"])
        if "l" in a:
            return [self.arg(x) for x in a["l"]]
        if "m" in a:
            return {k: self.arg(x) for k, x in a["m"]}
        return a.get("v")

    def method(self, b, c):
        name = c["m"]
        if keyword.iskeyword(c.get("name", "")):
            name = c["m"] + "_val" if not c["m"].endswith("_val") else c["m"]
        if not hasattr(b, name):
            raise Unknown("no option %s on %s" % (name, type(b).__name__))
        return getattr(b, name)

    def construct(self, p):
        """nested builder: exceptions of the generated code are wrapped in Raised"""
        cls = self.builder_class(p["b"])
        args = [self.arg(a) for a in p.get("ctor", [])]
        try:
            b = cls(*args)
        except Exception as e:          # noqa: BLE001
            raise Raised(e)
        for c in p.get("calls", []):
            args = [self.arg(a) for a in c["args"]]
            m = self.method(b, c)
            try:
                m(*args)
            except Exception as e:      # noqa: BLE001
                raise Raised(e)
        return b

    def encode(self, obj):
        try:
            return json.loads(json.dumps(obj, cls=self.encoder))
        except Exception:               # noqa: BLE001
            return None

    def run(self, job):
        res = {"id": job["id"], "known": True, "states": [], "calls_done": 0}
        p = job["prog"]
        at = -1
        b = None
        try:
            cls = self.builder_class(p["b"])
            args = [self.arg(a) for a in p.get("ctor", [])]
            try:
                b = cls(*args)
            except Exception as e:      # noqa: BLE001
                raise Raised(e)
            res["states"].append(dump(b._internal))
            calls = p.get("calls", [])
            for i, c in enumerate(calls):
                at = i
                args = [self.arg(a) for a in c["args"]]
                m = self.method(b, c)
                try:
                    m(*args)
                except Exception as e:  # noqa: BLE001
                    raise Raised(e)
                res["calls_done"] = i + 1
                if job.get("steps") or i == len(calls) - 1:
                    res["states"].append(dump(b._internal))
            res["call"] = "ok"
        except Unknown as e:
            res["error"] = str(e)
            return res
        except Raised as r:
            res["call"] = "raise"
            res["raised"] = type(r.exc).__name__
            res["raised_at"] = at
            if b is not None:
                res["states"].append(dump(b._internal))
            return res
        try:
            obj = b.build()
            res["build"] = {"s": "ok", "dump": dump(obj), "json": self.encode(obj)}
        except Exception as e:          # noqa: BLE001
            res["build"] = {"s": "raise", "raised": type(e).__name__}
        return res

    def default(self, job):
        mod, cls = job["t"].split(".")
        res = {"id": job["id"], "known": True}
        try:
            m = importlib.import_module("%s.models.%s" % (self.pkg, mod))
            obj = getattr(m, cls)()
            res["dump"] = dump(obj)
            res["json"] = self.encode(obj)
            res["call"] = "ok"
        except Exception as e:          # noqa: BLE001
            res["call"] = "raise"
            res["raised"] = type(e).__name__
        return res


def main():
    sys.path.insert(0, sys.argv[1])
    drv = Driver(sys.argv[2])
    out = sys.stdout
    for line in sys.stdin:
        line = line.strip()
        if not line:
            continue
        job = json.loads(line)
        try:
            if job["op"] == "run":
                res = drv.run(job)
            elif job["op"] == "default":
                res = drv.default(job)
            else:
                res = {"id": job["id"], "known": False}
        except Exception as e:          # noqa: BLE001  (a driver bug must not look like an outcome)
            res = {"id": job["id"], "known": False, "error": "driver: %r" % (e,)}
        out.write(json.dumps(res) + "\n")
    out.flush()


if __name__ == "__main__":
    main()
