// Driver compiled AGAINST a batch of cog-generated Go packages with BUILDERS (and converters) (template;
// copied into <module>/cmd/driver/main.go by vlib/gencode_bld.py next to a generated dispatch.go that maps
// "<gopkg>.<GoName>" to the generated constructor functions).  Everything else is reflection over the
// generated API: builder programs are executed by calling New<X>Builder and the option methods by name.
//
// stdin: one JSON job per line
//
//	{"id": "...", "op": "run", "prog": PROG, "steps": bool}
//	    PROG = {"b": "<gopkg>.<GoBuilder>", "ctor": [ARG...], "calls": [{"m": "<GoMethod>", "args": [ARG...]}, ...]}
//	    ARG  = {"v": <json>}                       plain value, json.Unmarshal'ed into the parameter type
//	         | {"nil": true}                       zero value of the parameter type (nil slice / nil map)
//	         | {"b": PROG}                         a nested builder (cog.Builder[T] parameter)
//	         | {"l": [ARG...]} | {"m": [[key, ARG]...]}   slice / map literal whose elements contain builders
//	  -> {"id", "known": true, "states": [STATE...], "build": {"s": "ok"|"err"|"panic", "paths": [...], "dump": DUMP, "json": ...},
//	      "call": "ok"|"panic", "calls_done": n}
//	     STATE = {"dump": DUMP of *builder.internal, "json": json.Marshal of it, "errors": [keys of builder.errors]}
//	     states[0] is the state after the constructor; with "steps" one state per call follows, else only the last.
//	{"id": "...", "op": "default", "t": "<gopkg>.<GoType>"}      New<T>()
//	  -> {"id", "known": true, "dump": DUMP, "json": ...}
//	{"id": "...", "op": "convert", "t": "<gopkg>.<GoType>", "b": "<gopkg>.<GoBuilder>", "docs": ["<json>", ...]}     (converters: true)
//	  -> {"id", "known": true, "conv": [{"s": "ok"|"decode-err"|"panic", "valid": Validate() of the decoded value,
//	                                      "code": "<text returned by <Builder>Converter>",
//	                                      "dump": DUMP of the decoded value, "json": ...}, ...]}
//
// DUMP (a Go value with everything JSON erases): {"k": "nil"} | {"k":"bool","v":b} | {"k":"int","v":"<decimal>"} |
// {"k":"float","v":"<shortest decimal>"} | {"k":"str","v":s} | {"k":"time","v":"<RFC3339Nano>","local":b} |
// {"k":"ptr","v":DUMP} | {"k":"slice","v":[DUMP]} | {"k":"map","v":[[key,DUMP]...] sorted} |
// {"k":"struct","v":[[json field name, DUMP]...] in declaration order} | {"k":"any","v":<json.Marshal of the value>}
package main

import (
	"bufio"
	"encoding/json"
	"fmt"
	"os"
	"reflect"
	"runtime/debug"
	"sort"
	"strconv"
	"strings"
	"time"
	"unsafe"
)

type arg struct {
	V   json.RawMessage   `json:"v"`
	Nil bool              `json:"nil"`
	B   *prog             `json:"b"`
	L   []arg             `json:"l"`
	M   []json.RawMessage `json:"m"`
	IsL bool              `json:"-"`
}

type call struct {
	M    string `json:"m"`
	Args []arg  `json:"args"`
}

type prog struct {
	B     string `json:"b"`
	Ctor  []arg  `json:"ctor"`
	Calls []call `json:"calls"`
}

type job struct {
	ID    string   `json:"id"`
	Op    string   `json:"op"`
	Prog  *prog    `json:"prog"`
	Steps bool     `json:"steps"`
	T     string   `json:"t"`
	B     string   `json:"b"`
	Docs  []string `json:"docs"`
}

type state struct {
	Dump   any             `json:"dump"`
	JSON   json.RawMessage `json:"json"`
	Errors []string        `json:"errors"`
}

type buildRes struct {
	S      string          `json:"s"`
	Errors []string        `json:"errors"` // keys of builder.errors (nested builders that failed)
	Paths  []string        `json:"paths"`
	Dump   any             `json:"dump"`
	JSON   json.RawMessage `json:"json"`
}

type convRes struct {
	S     string          `json:"s"`
	Valid string          `json:"valid"` // Validate() of the decoded value: "ok" | "err" | "panic"
	Code  string          `json:"code"`
	Dump  any             `json:"dump"`
	JSON  json.RawMessage `json:"json"`
}

type result struct {
	ID        string          `json:"id"`
	Known     bool            `json:"known"`
	Error     string          `json:"error,omitempty"`
	States    []state         `json:"states,omitempty"`
	Build     *buildRes       `json:"build,omitempty"`
	Call      string          `json:"call,omitempty"`
	CallsDone int             `json:"calls_done"`
	Dump      any             `json:"dump,omitempty"`
	JSON      json.RawMessage `json:"json,omitempty"`
	Conv      []convRes       `json:"conv,omitempty"`
}

// ---------------------------------------------------------------- dump
var timeType = reflect.TypeOf(time.Time{})

func jsonName(f reflect.StructField) string {
	tag := f.Tag.Get("json")
	if i := strings.Index(tag, ","); i >= 0 {
		tag = tag[:i]
	}
	if tag == "" {
		return f.Name
	}
	return tag
}

func dump(v reflect.Value) any {
	if !v.IsValid() {
		return map[string]any{"k": "nil"}
	}
	if v.Type() == timeType {
		t := v.Interface().(time.Time)
		return map[string]any{"k": "time", "v": t.Format(time.RFC3339Nano), "local": t.Location() == time.Local}
	}
	switch v.Kind() {
	case reflect.Bool:
		return map[string]any{"k": "bool", "v": v.Bool()}
	case reflect.Int, reflect.Int8, reflect.Int16, reflect.Int32, reflect.Int64:
		return map[string]any{"k": "int", "v": strconv.FormatInt(v.Int(), 10)}
	case reflect.Uint, reflect.Uint8, reflect.Uint16, reflect.Uint32, reflect.Uint64:
		return map[string]any{"k": "int", "v": strconv.FormatUint(v.Uint(), 10)}
	case reflect.Float32:
		return map[string]any{"k": "float", "v": strconv.FormatFloat(v.Float(), 'g', -1, 32)}
	case reflect.Float64:
		return map[string]any{"k": "float", "v": strconv.FormatFloat(v.Float(), 'g', -1, 64)}
	case reflect.String:
		return map[string]any{"k": "str", "v": v.String()}
	case reflect.Pointer:
		if v.IsNil() {
			return map[string]any{"k": "nil"}
		}
		return map[string]any{"k": "ptr", "v": dump(v.Elem())}
	case reflect.Interface:
		if v.IsNil() {
			return map[string]any{"k": "nil"}
		}
		e := v.Elem()
		if e.Kind() == reflect.Pointer {
			return dump(e)
		}
		b, err := json.Marshal(e.Interface())
		if err != nil {
			return map[string]any{"k": "any", "v": nil, "err": err.Error()}
		}
		return map[string]any{"k": "any", "v": json.RawMessage(b)}
	case reflect.Slice:
		if v.IsNil() {
			return map[string]any{"k": "nil"}
		}
		out := make([]any, v.Len())
		for i := range out {
			out[i] = dump(v.Index(i))
		}
		return map[string]any{"k": "slice", "v": out}
	case reflect.Map:
		if v.IsNil() {
			return map[string]any{"k": "nil"}
		}
		keys := v.MapKeys()
		sort.Slice(keys, func(i, j int) bool { return fmt.Sprint(keys[i].Interface()) < fmt.Sprint(keys[j].Interface()) })
		out := make([]any, len(keys))
		for i, k := range keys {
			out[i] = []any{fmt.Sprint(k.Interface()), dump(v.MapIndex(k))}
		}
		return map[string]any{"k": "map", "v": out}
	case reflect.Struct:
		out := []any{}
		for i := 0; i < v.NumField(); i++ {
			f := v.Type().Field(i)
			if !f.IsExported() {
				continue
			}
			out = append(out, []any{jsonName(f), dump(v.Field(i))})
		}
		return map[string]any{"k": "struct", "v": out}
	}
	return map[string]any{"k": "other", "v": v.Kind().String()}
}

func marshal(v any) json.RawMessage {
	defer func() { _ = recover() }()
	b, err := json.Marshal(v)
	if err != nil {
		return nil
	}
	return b
}

// ---------------------------------------------------------------- programs
type unknownErr struct{ what string }

func (e unknownErr) Error() string { return e.what }

// decodeArg builds a value of type t from an ARG.
func decodeArg(a arg, t reflect.Type) (reflect.Value, error) {
	switch {
	case a.B != nil:
		b, err := construct(*a.B)
		if err != nil {
			return reflect.Value{}, err
		}
		if !b.Type().AssignableTo(t) {
			return reflect.Value{}, unknownErr{"builder " + a.B.B + " is not assignable to " + t.String()}
		}
		return b, nil
	case a.Nil:
		return reflect.Zero(t), nil
	case a.L != nil || a.IsL:
		if t.Kind() != reflect.Slice {
			return reflect.Value{}, unknownErr{"list argument for " + t.String()}
		}
		out := reflect.MakeSlice(t, 0, len(a.L))
		for _, x := range a.L {
			v, err := decodeArg(x, t.Elem())
			if err != nil {
				return reflect.Value{}, err
			}
			out = reflect.Append(out, v)
		}
		return out, nil
	case a.M != nil:
		if t.Kind() != reflect.Map {
			return reflect.Value{}, unknownErr{"map argument for " + t.String()}
		}
		out := reflect.MakeMap(t)
		for _, raw := range a.M {
			var pair []json.RawMessage
			if err := json.Unmarshal(raw, &pair); err != nil || len(pair) != 2 {
				return reflect.Value{}, unknownErr{"bad map entry"}
			}
			var key string
			if err := json.Unmarshal(pair[0], &key); err != nil {
				return reflect.Value{}, unknownErr{"bad map key"}
			}
			var x arg
			if err := json.Unmarshal(pair[1], &x); err != nil {
				return reflect.Value{}, unknownErr{"bad map value"}
			}
			v, err := decodeArg(x, t.Elem())
			if err != nil {
				return reflect.Value{}, err
			}
			out.SetMapIndex(reflect.ValueOf(key).Convert(t.Key()), v)
		}
		return out, nil
	default:
		pv := reflect.New(t)
		if err := json.Unmarshal(a.V, pv.Interface()); err != nil {
			return reflect.Value{}, unknownErr{"argument " + string(a.V) + " does not decode into " + t.String() + ": " + err.Error()}
		}
		return pv.Elem(), nil
	}
}

func (a *arg) UnmarshalJSON(b []byte) error {
	type plain arg
	var p plain
	if err := json.Unmarshal(b, &p); err != nil {
		return err
	}
	*a = arg(p)
	var probe map[string]json.RawMessage
	if err := json.Unmarshal(b, &probe); err == nil {
		if _, ok := probe["l"]; ok {
			a.IsL = true
		}
		if _, ok := probe["m"]; ok && a.M == nil {
			a.M = []json.RawMessage{}
		}
	}
	return nil
}

func callFn(fn reflect.Value, args []arg) (out []reflect.Value, err error) {
	ft := fn.Type()
	if ft.NumIn() != len(args) {
		return nil, unknownErr{fmt.Sprintf("%d arguments for %s", len(args), ft.String())}
	}
	in := make([]reflect.Value, len(args))
	for i, a := range args {
		v, err := decodeArg(a, ft.In(i))
		if err != nil {
			return nil, err
		}
		in[i] = v
	}
	return fn.Call(in), nil
}

// construct runs a whole program and returns the builder (a *XBuilder).
func construct(p prog) (reflect.Value, error) {
	ctor, ok := builders[p.B]
	if !ok {
		return reflect.Value{}, unknownErr{"unknown builder " + p.B}
	}
	out, err := callFn(ctor, p.Ctor)
	if err != nil {
		return reflect.Value{}, err
	}
	b := out[0]
	for _, c := range p.Calls {
		m := b.MethodByName(c.M)
		if !m.IsValid() {
			return reflect.Value{}, unknownErr{"unknown option " + p.B + "." + c.M}
		}
		if _, err := callFn(m, c.Args); err != nil {
			return reflect.Value{}, err
		}
	}
	return b, nil
}

func snapshot(b reflect.Value) state {
	st := state{Errors: []string{}}
	in := unexported(b, "internal")
	if in.IsValid() && !in.IsNil() {
		st.Dump = dump(in.Elem())
		st.JSON = marshal(in.Interface())
	}
	errs := unexported(b, "errors")
	if errs.IsValid() && errs.Kind() == reflect.Map {
		for _, k := range errs.MapKeys() {
			st.Errors = append(st.Errors, k.String())
		}
		sort.Strings(st.Errors)
	}
	return st
}

func errPaths(err error) []string {
	out := []string{}
	v := reflect.ValueOf(err)
	if v.Kind() == reflect.Slice { // cog.BuildErrors
		for i := 0; i < v.Len(); i++ {
			e := v.Index(i)
			if e.Kind() == reflect.Pointer && !e.IsNil() && e.Elem().Kind() == reflect.Struct {
				if p := e.Elem().FieldByName("Path"); p.IsValid() {
					out = append(out, p.String())
				}
			}
		}
		return out
	}
	return []string{"<not-a-BuildErrors>"}
}

func unexported(b reflect.Value, name string) reflect.Value {
	f := b.Elem().FieldByName(name)
	if !f.IsValid() {
		return f
	}
	return reflect.NewAt(f.Type(), unsafe.Pointer(f.UnsafeAddr())).Elem()
}

func doBuild(b reflect.Value) (res *buildRes) {
	res = &buildRes{Errors: []string{}}
	if errs := unexported(b, "errors"); errs.IsValid() && errs.Kind() == reflect.Map {
		for _, k := range errs.MapKeys() {
			res.Errors = append(res.Errors, k.String())
		}
		sort.Strings(res.Errors)
	}
	defer func() {
		if r := recover(); r != nil {
			res.S = "panic"
		}
	}()
	out := b.MethodByName("Build").Call(nil)
	if !out[1].IsNil() {
		res.S = "err"
		res.Paths = errPaths(out[1].Interface().(error))
		return res
	}
	res.S = "ok"
	res.Dump = dump(out[0])
	res.JSON = marshal(out[0].Interface())
	return res
}

func runProg(j job) (res result) {
	res = result{ID: j.ID, Known: true}
	p := *j.Prog
	var b reflect.Value
	defer func() {
		if r := recover(); r != nil {
			res.Call = "panic"
			if b.IsValid() {
				res.States = append(res.States, snapshot(b))
			}
		}
	}()
	ctor, ok := builders[p.B]
	if !ok {
		res.Known = false
		return res
	}
	out, err := callFn(ctor, p.Ctor)
	if err != nil {
		res.Error = err.Error()
		return res
	}
	b = out[0]
	res.States = append(res.States, snapshot(b))
	for i, c := range p.Calls {
		m := b.MethodByName(c.M)
		if !m.IsValid() {
			res.Error = "unknown option " + p.B + "." + c.M
			return res
		}
		if _, err := callFn(m, c.Args); err != nil {
			res.Error = err.Error()
			return res
		}
		res.CallsDone = i + 1
		if j.Steps || i == len(p.Calls)-1 {
			res.States = append(res.States, snapshot(b))
		}
	}
	res.Call = "ok"
	res.Build = doBuild(b)
	return res
}

func runDefault(j job) (res result) {
	res = result{ID: j.ID, Known: true}
	defer func() {
		if r := recover(); r != nil {
			res.Call = "panic"
		}
	}()
	ctor, ok := types[j.T]
	if !ok {
		res.Known = false
		return res
	}
	v := ctor.Call(nil)[0]
	res.Dump = dump(v.Elem())
	res.JSON = marshal(v.Interface())
	res.Call = "ok"
	return res
}

func runConvert(j job) (res result) {
	res = result{ID: j.ID, Known: true}
	ctor, ok := types[j.T]
	conv, ok2 := converters[j.B]
	if !ok || !ok2 {
		res.Known = false
		return res
	}
	t := ctor.Type().Out(0).Elem()
	for _, d := range j.Docs {
		res.Conv = append(res.Conv, func() (c convRes) {
			defer func() {
				if r := recover(); r != nil {
					c.S = "panic"
				}
			}()
			pv := reflect.New(t)
			if err := json.Unmarshal([]byte(d), pv.Interface()); err != nil {
				c.S = "decode-err"
				return c
			}
			c.Dump = dump(pv.Elem())
			c.JSON = marshal(pv.Interface())
			c.Valid = func() (s string) {
				defer func() {
					if r := recover(); r != nil {
						s = "panic"
					}
				}()
				m := pv.MethodByName("Validate")
				if !m.IsValid() {
					return ""
				}
				if out := m.Call(nil); !out[0].IsNil() {
					return "err"
				}
				return "ok"
			}()
			out := conv.Call([]reflect.Value{pv.Elem()})
			c.Code = out[0].String()
			c.S = "ok"
			return c
		}())
	}
	return res
}

func main() {
	// a constructor that recurses forever (mutually required objects) must die quickly
	debug.SetMaxStack(32 << 20)
	in := bufio.NewScanner(os.Stdin)
	in.Buffer(make([]byte, 1<<20), 1<<28)
	out := bufio.NewWriterSize(os.Stdout, 1<<20)
	defer out.Flush()
	for in.Scan() {
		var j job
		if err := json.Unmarshal(in.Bytes(), &j); err != nil {
			fmt.Fprintln(os.Stderr, "bad job:", err)
			os.Exit(2)
		}
		var res result
		switch j.Op {
		case "run":
			res = runProg(j)
		case "default":
			res = runDefault(j)
		case "convert":
			res = runConvert(j)
		default:
			res = result{ID: j.ID}
		}
		b, err := json.Marshal(res)
		if err != nil {
			fmt.Fprintln(os.Stderr, "cannot print result:", err)
			os.Exit(2)
		}
		out.Write(b)
		out.WriteByte('\n')
	}
}
