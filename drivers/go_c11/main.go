// C11 variant of drivers/go/main.go (ops std and ctor only; the generated packages need no Equals / Validate /
// UnmarshalJSONStrict).
// Generic driver compiled AGAINST a batch of cog-generated Go packages (template; copied verbatim
// into <module>/cmd/driver/main.go by vlib/gencode.py, next to a generated dispatch.go that
// contains one `case "<gopkg>.<GoType>"` per generated type, so no reflection over unknown
// packages is needed).
//
// stdin : one JSON job per line   {"id": "...", "t": "<gopkg>.<GoType>", "docs": ["<json>", ...],
//                                  "ops": ["std","strict","validate","equals"]}
// stdout: one JSON result per line {"id": "...", "known": true,
//           "res": [ per document:
//               {"std": "ok"|"err"|"panic",            encoding/json Unmarshal into a zero value
//                "enc": <json>|null, "encs": "ok"|"err"|"panic"|"",   json.Marshal of that value
//                "val": ["path", ...]|null, "vals": "ok"|"err"|"panic"|"",  Validate(): BuildErrors paths
//                "strict": "ok"|"err"|"panic"|"",      UnmarshalJSONStrict into a zero value
//                "spaths": [...],                      BuildErrors paths of the strict error
//                "senc": <json>|null, "sencs": ...}    json.Marshal of the strictly decoded value
//           ],
//           "ctor": <json>|null, "ctors": "ok"|"err"|"panic"|"",   json.Marshal(New<Type>())   (op "ctor")
//           "eq": [[...]]}    Equals matrix over values [std(d0..dn-1), strict(d0..dn-1)]:
//                             "t" | "f" | "p" (panic) | "-" (a value is missing: its decode failed)
//
// Outcomes are enums; error texts are never printed except BuildErrors *paths*.  Panics are outcomes.
package main

import (
	"bufio"
	"encoding/json"
	"errors"
	"fmt"
	"os"

	cog "PACKAGE_ROOT/cog"
)

type job struct {
	ID   string   `json:"id"`
	T    string   `json:"t"`
	Docs []string `json:"docs"`
	Ops  []string `json:"ops"`
}

type docResult struct {
	Std    string          `json:"std"`
	Enc    json.RawMessage `json:"enc"`
	Encs   string          `json:"encs"`
	Val    []string        `json:"val"`
	Vals   string          `json:"vals"`
	Strict string          `json:"strict"`
	Spaths []string        `json:"spaths"`
	Senc   json.RawMessage `json:"senc"`
	Sencs  string          `json:"sencs"`
}

type result struct {
	ID    string          `json:"id"`
	Known bool            `json:"known"`
	Res   []docResult     `json:"res"`
	Eq    [][]string      `json:"eq"`
	Ctor  json.RawMessage `json:"ctor"`
	Ctors string          `json:"ctors"`
}

func (j job) has(op string) bool {
	if len(j.Ops) == 0 {
		return op != "ctor" // default: everything about the documents
	}
	for _, o := range j.Ops {
		if o == op {
			return true
		}
	}
	return false
}

// guard runs f and maps a panic to the outcome "panic".
func guard(f func() error) (outcome string, err error) {
	defer func() {
		if r := recover(); r != nil {
			outcome = "panic"
			err = fmt.Errorf("panic: %v", r)
		}
	}()
	if e := f(); e != nil {
		return "err", e
	}
	return "ok", nil
}

func paths(err error) []string {
	out := []string{}
	var be cog.BuildErrors
	if errors.As(err, &be) {
		for _, e := range be {
			out = append(out, e.Path)
		}
		return out
	}
	var one *cog.BuildError
	if errors.As(err, &one) {
		return []string{one.Path}
	}
	return []string{"<not-a-BuildErrors>"}
}

func encode(v any) (json.RawMessage, string) {
	var out []byte
	oc, _ := guard(func() error {
		b, err := json.Marshal(v)
		out = b
		return err
	})
	if oc != "ok" {
		return nil, oc
	}
	return out, oc
}

// handleStruct drives a generated struct type T with encoding/json only (no Equals / Validate / strict decoder
// needed: the package is generated with generate_json_marshaller alone); ctor is the generated New<T>().
func handleStruct[T any, PT interface{ *T }](j job, ctor func() *T) result {
	n := len(j.Docs)
	res := result{ID: j.ID, Known: true, Res: make([]docResult, n)}
	if j.has("ctor") {
		var v *T
		oc, _ := guard(func() error { v = ctor(); return nil })
		res.Ctors = oc
		if oc == "ok" {
			res.Ctor, res.Ctors = encode(v)
		}
	}
	for i, d := range j.Docs {
		r := &res.Res[i]
		if j.has("std") {
			v := new(T)
			r.Std, _ = guard(func() error { return json.Unmarshal([]byte(d), v) })
			if r.Std == "ok" {
				r.Enc, r.Encs = encode(v)
			}
		}
	}
	return res
}

// handlePlain drives a generated non-struct type (enum, alias, named map/array): standard
// decoding and re-encoding only.
func handlePlain[T any](j job) result {
	res := result{ID: j.ID, Known: true, Res: make([]docResult, len(j.Docs))}
	for i, d := range j.Docs {
		r := &res.Res[i]
		v := new(T)
		r.Std, _ = guard(func() error { return json.Unmarshal([]byte(d), v) })
		if r.Std == "ok" {
			r.Enc, r.Encs = encode(v)
		}
	}
	return res
}

func main() {
	in := bufio.NewScanner(os.Stdin)
	in.Buffer(make([]byte, 1<<20), 1<<28)
	out := bufio.NewWriterSize(os.Stdout, 1<<20)
	defer out.Flush()
	for in.Scan() {
		var j job
		if err := json.Unmarshal(in.Bytes(), &j); err != nil {
			fmt.Fprintln(os.Stderr, "bad job:", err)
			os.Exit(2)
		}
		res := dispatch(j)
		b, err := json.Marshal(res)
		if err != nil {
			fmt.Fprintln(os.Stderr, "cannot print result:", err)
			os.Exit(2)
		}
		out.Write(b)
		out.WriteByte('\n')
	}
}
