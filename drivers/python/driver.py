#!/usr/bin/env python3
"""Generic driver run AGAINST a batch of cog-generated Python modules (never edited by cog; the generated
package lives in <root>/<prefix>/{models,cog}/ and is imported as the package `<prefix>`).

argv : <root directory> <package prefix>
stdin: one JSON job per line  {"id": "...", "module": "<schema package>", "cls": "<ClassName>",
                               "docs": ["<json text>", ...], "ops": ["ctor", "rt"]}
stdout: one JSON result per line
    {"id": "...", "known": true|false, "import": "ok"|"<ExceptionType>",
     "ctors": "ok"|"exc"|"", "ctor_exc": "<ExceptionType>", "ctor": <json>|null,
         json.dumps(Cls(), cls=<generated JSONEncoder>)
     "ctor2s", "ctor2": the same for a SECOND Cls() built after every list / dict held by a first Cls() was mutated in
         place (op "ctor2": default values must not be shared between instances)
     "res": [ per document {"rt": "ok"|"exc", "stage": "from_json"|"to_json", "exc": "<ExceptionType>",
                            "enc": <json>|null} ]}
         json.dumps(Cls.from_json(json.loads(doc)), cls=<generated JSONEncoder>)

Documents are parsed with the standard `json.loads` and printed with `json.dumps`, exactly what a user of
the generated SDK does.  Exceptions are outcomes (type name only; messages are never compared)."""
import importlib
import json
import sys


def mutate(obj, seen):
    """append to every list and add a key to every dict reachable through the attributes of a generated object"""
    if id(obj) in seen:
        return
    seen.add(id(obj))
    if isinstance(obj, list):
        for x in list(obj):
            mutate(x, seen)
        obj.append("__mutated__")
    elif isinstance(obj, dict):
        for x in list(obj.values()):
            mutate(x, seen)
        obj["__mutated__"] = "__mutated__"
    elif hasattr(obj, "__dict__") and hasattr(obj, "to_json"):
        for x in list(vars(obj).values()):
            mutate(x, seen)


def main():
    root, prefix = sys.argv[1], sys.argv[2]
    sys.path.insert(0, root)
    sys.setrecursionlimit(3000)
    encoder = None
    enc_err = ""
    try:
        encoder = importlib.import_module(prefix + ".cog.encoder").JSONEncoder
    except BaseException as e:      # noqa
        enc_err = type(e).__name__
    modules = {}
    out = sys.stdout
    for line in sys.stdin:
        line = line.strip()
        if not line:
            continue
        job = json.loads(line)
        name = job["module"]
        if name not in modules:
            try:
                modules[name] = (importlib.import_module("%s.models.%s" % (prefix, name)), "ok")
            except BaseException as e:  # noqa
                modules[name] = (None, type(e).__name__)
        mod, status = modules[name]
        parts = ['"id":%s' % json.dumps(job["id"])]
        cls = getattr(mod, job["cls"], None) if mod is not None else None
        if encoder is None:
            status = "encoder:" + enc_err
        parts.append('"import":%s' % json.dumps(status))
        if cls is None or encoder is None or not isinstance(cls, type):
            parts.append('"known":false')
            out.write("{" + ",".join(parts) + "}\n")
            continue
        parts.append('"known":true')
        ops = job.get("ops") or ["rt"]
        if "ctor" in ops:
            try:
                text = json.dumps(cls(), cls=encoder)
                parts.append('"ctors":"ok","ctor":%s' % text)
            except BaseException as e:  # noqa
                parts.append('"ctors":"exc","ctor":null,"ctor_exc":%s' % json.dumps(type(e).__name__))
        if "ctor2" in ops:
            # history: build a default object, MUTATE every list / dict it holds in place (as a user filling the object
            # would), build another default object: it must still print the defaults
            try:
                first = cls()
                mutate(first, set())
                text = json.dumps(cls(), cls=encoder)
                parts.append('"ctor2s":"ok","ctor2":%s' % text)
            except BaseException as e:  # noqa
                parts.append('"ctor2s":"exc","ctor2":null,"ctor2_exc":%s' % json.dumps(type(e).__name__))
        res = []
        if "rt" in ops:
            for d in job["docs"]:
                stage = "from_json"
                try:
                    data = json.loads(d)
                    obj = cls.from_json(data)
                    stage = "to_json"
                    text = json.dumps(obj, cls=encoder)
                    res.append('{"rt":"ok","enc":%s}' % text)
                except BaseException as e:  # noqa
                    res.append('{"rt":"exc","stage":"%s","exc":%s,"enc":null}' % (stage, json.dumps(type(e).__name__)))
        parts.append('"res":[%s]' % ",".join(res))
        out.write("{" + ",".join(parts) + "}\n")
    out.flush()


main()
