// STUB written by /verif (C02)
package com.fasterxml.jackson.core.type;
public abstract class TypeReference<T> implements Comparable<TypeReference<T>> {
    protected TypeReference() { }
    public java.lang.reflect.Type getType() { return null; }
    @Override public int compareTo(TypeReference<T> o) { return 0; }
}
