// STUB written by /verif (C02)
package com.fasterxml.jackson.core;
import java.io.IOException;
public abstract class JsonGenerator implements java.io.Closeable, java.io.Flushable {
    public abstract void writeObject(Object pojo) throws IOException;
    public abstract void writeString(String text) throws IOException;
    public abstract void writeNumber(int v) throws IOException;
    public abstract void writeNumber(long v) throws IOException;
    public abstract void writeNumber(double v) throws IOException;
    public abstract void writeNumber(float v) throws IOException;
    public abstract void writeBoolean(boolean state) throws IOException;
    public abstract void writeNull() throws IOException;
    public abstract void writeStartObject() throws IOException;
    public abstract void writeEndObject() throws IOException;
    public abstract void writeStartArray() throws IOException;
    public abstract void writeEndArray() throws IOException;
    public abstract void writeFieldName(String name) throws IOException;
    public void writeObjectField(String fieldName, Object pojo) throws IOException { writeFieldName(fieldName); writeObject(pojo); }
    public void writeStringField(String fieldName, String value) throws IOException { writeFieldName(fieldName); writeString(value); }
}
