// STUB written by /verif (C02)
package com.fasterxml.jackson.core;
public interface TreeNode { }
