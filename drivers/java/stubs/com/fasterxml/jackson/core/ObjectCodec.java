// STUB written by /verif (C02)
package com.fasterxml.jackson.core;
import java.io.IOException;
public abstract class ObjectCodec {
    public abstract <T extends TreeNode> T readTree(JsonParser p) throws IOException;
    public abstract <T> T readValue(JsonParser p, Class<T> valueType) throws IOException;
    public abstract <T> T treeToValue(TreeNode n, Class<T> valueType) throws JsonProcessingException;
}
