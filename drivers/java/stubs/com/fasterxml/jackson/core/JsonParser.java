// STUB written by /verif (C02)
package com.fasterxml.jackson.core;
import java.io.IOException;
public abstract class JsonParser implements java.io.Closeable {
    public abstract ObjectCodec getCodec();
    public abstract String getText() throws IOException;
    public abstract String getValueAsString() throws IOException;
    public abstract int getIntValue() throws IOException;
    public abstract long getLongValue() throws IOException;
    public abstract double getDoubleValue() throws IOException;
    public abstract boolean getBooleanValue() throws IOException;
    public abstract <T extends TreeNode> T readValueAsTree() throws IOException;
    public abstract <T> T readValueAs(Class<T> valueType) throws IOException;
}
