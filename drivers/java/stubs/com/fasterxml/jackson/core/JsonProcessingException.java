// STUB written by /verif (C02)
package com.fasterxml.jackson.core;
public class JsonProcessingException extends java.io.IOException {
    public JsonProcessingException(String msg) { super(msg); }
    public JsonProcessingException(String msg, Throwable cause) { super(msg, cause); }
}
