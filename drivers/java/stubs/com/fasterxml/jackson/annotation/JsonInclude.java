// STUB written by /verif (C02)
package com.fasterxml.jackson.annotation;
import java.lang.annotation.*;
@Retention(RetentionPolicy.RUNTIME)
@Target({ElementType.ANNOTATION_TYPE, ElementType.METHOD, ElementType.FIELD, ElementType.TYPE, ElementType.PARAMETER})
public @interface JsonInclude {
    Include value() default Include.ALWAYS;
    Include content() default Include.ALWAYS;
    enum Include { ALWAYS, NON_NULL, NON_ABSENT, NON_EMPTY, NON_DEFAULT, CUSTOM, USE_DEFAULTS }
}
