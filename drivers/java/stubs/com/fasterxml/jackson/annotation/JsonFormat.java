// STUB written by /verif (C02)
package com.fasterxml.jackson.annotation;
import java.lang.annotation.*;
@Retention(RetentionPolicy.RUNTIME)
@Target({ElementType.ANNOTATION_TYPE, ElementType.FIELD, ElementType.METHOD, ElementType.PARAMETER, ElementType.TYPE})
public @interface JsonFormat {
    String pattern() default "";
    Shape shape() default Shape.ANY;
    String locale() default "##default";
    String timezone() default "##default";
    Feature[] with() default {};
    Feature[] without() default {};
    enum Shape { ANY, NATURAL, SCALAR, ARRAY, OBJECT, NUMBER, NUMBER_FLOAT, NUMBER_INT, STRING, BOOLEAN, BINARY }
    enum Feature { ACCEPT_SINGLE_VALUE_AS_ARRAY, ACCEPT_CASE_INSENSITIVE_PROPERTIES, ACCEPT_CASE_INSENSITIVE_VALUES,
                   WRITE_DATE_TIMESTAMPS_AS_NANOSECONDS, WRITE_DATES_WITH_ZONE_ID, WRITE_SINGLE_ELEM_ARRAYS_UNWRAPPED,
                   WRITE_SORTED_MAP_ENTRIES, ADJUST_DATES_TO_CONTEXT_TIME_ZONE }
}
