// STUB written by /verif (C02)
package com.fasterxml.jackson.annotation;
public enum Nulls { SET, SKIP, FAIL, AS_EMPTY, DEFAULT }
