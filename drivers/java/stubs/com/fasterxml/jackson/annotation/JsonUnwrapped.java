// STUB written by /verif (C02)
package com.fasterxml.jackson.annotation;
import java.lang.annotation.*;
@Retention(RetentionPolicy.RUNTIME)
@Target({ElementType.ANNOTATION_TYPE, ElementType.FIELD, ElementType.METHOD, ElementType.PARAMETER})
public @interface JsonUnwrapped { boolean enabled() default true; String prefix() default ""; String suffix() default ""; }
