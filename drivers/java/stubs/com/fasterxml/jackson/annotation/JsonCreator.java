// STUB written by /verif (C02)
package com.fasterxml.jackson.annotation;
import java.lang.annotation.*;
@Retention(RetentionPolicy.RUNTIME)
@Target({ElementType.ANNOTATION_TYPE, ElementType.METHOD, ElementType.CONSTRUCTOR})
public @interface JsonCreator {
    Mode mode() default Mode.DEFAULT;
    enum Mode { DEFAULT, DELEGATING, PROPERTIES, DISABLED }
}
