// STUB written by /verif (C02)
package com.fasterxml.jackson.annotation;
import java.lang.annotation.*;
@Retention(RetentionPolicy.RUNTIME)
@Target({ElementType.ANNOTATION_TYPE, ElementType.FIELD, ElementType.METHOD, ElementType.PARAMETER})
public @interface JsonProperty {
    String value() default "";
    String namespace() default "";
    boolean required() default false;
    int index() default -1;
    String defaultValue() default "";
    Access access() default Access.AUTO;
    enum Access { AUTO, READ_ONLY, WRITE_ONLY, READ_WRITE }
}
