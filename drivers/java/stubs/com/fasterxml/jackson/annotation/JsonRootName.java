// STUB written by /verif (C02): the annotation surface of Jackson that cog's Java output imports.
package com.fasterxml.jackson.annotation;
import java.lang.annotation.*;
@Retention(RetentionPolicy.RUNTIME)
@Target({ElementType.ANNOTATION_TYPE, ElementType.FIELD, ElementType.METHOD, ElementType.PARAMETER, ElementType.TYPE, ElementType.CONSTRUCTOR})
public @interface JsonRootName {
    String[] value() default {};
    boolean required() default false;
    boolean ignoreUnknown() default false;
    String defaultValue() default "";
    boolean enabled() default true;
    String prefix() default "";
    String suffix() default "";
}
