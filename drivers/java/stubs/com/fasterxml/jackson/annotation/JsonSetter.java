// STUB written by /verif (C02)
package com.fasterxml.jackson.annotation;
import java.lang.annotation.*;
@Retention(RetentionPolicy.RUNTIME)
@Target({ElementType.ANNOTATION_TYPE, ElementType.FIELD, ElementType.METHOD, ElementType.PARAMETER})
public @interface JsonSetter {
    String value() default "";
    Nulls nulls() default Nulls.DEFAULT;
    Nulls contentNulls() default Nulls.DEFAULT;
}
