// STUB written by /verif (C02)
package com.fasterxml.jackson.annotation;
import java.lang.annotation.*;
@Retention(RetentionPolicy.RUNTIME)
@Target({ElementType.ANNOTATION_TYPE, ElementType.METHOD, ElementType.FIELD})
public @interface JsonValue { boolean value() default true; }
