// STUB written by /verif (C02)
package com.fasterxml.jackson.databind;
import com.fasterxml.jackson.core.JsonProcessingException;
public class ObjectWriter {
    public ObjectWriter withDefaultPrettyPrinter() { return this; }
    public String writeValueAsString(Object value) throws JsonProcessingException { return ""; }
    public byte[] writeValueAsBytes(Object value) throws JsonProcessingException { return new byte[0]; }
}
