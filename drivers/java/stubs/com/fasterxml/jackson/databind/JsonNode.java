// STUB written by /verif (C02)
package com.fasterxml.jackson.databind;
import java.util.Iterator;
import java.util.Map;
public abstract class JsonNode implements com.fasterxml.jackson.core.TreeNode, Iterable<JsonNode> {
    public abstract JsonNode get(String fieldName);
    public abstract JsonNode get(int index);
    public abstract JsonNode path(String fieldName);
    public boolean has(String fieldName) { return get(fieldName) != null; }
    public boolean has(int index) { return get(index) != null; }
    public boolean hasNonNull(String fieldName) { return get(fieldName) != null; }
    public abstract String asText();
    public String asText(String defaultValue) { return asText(); }
    public String textValue() { return null; }
    public int asInt() { return 0; }
    public int asInt(int d) { return d; }
    public long asLong() { return 0L; }
    public double asDouble() { return 0.0; }
    public boolean asBoolean() { return false; }
    public int intValue() { return 0; }
    public long longValue() { return 0L; }
    public double doubleValue() { return 0.0; }
    public float floatValue() { return 0.0f; }
    public boolean booleanValue() { return false; }
    public Number numberValue() { return null; }
    public boolean isTextual() { return false; }
    public boolean isBoolean() { return false; }
    public boolean isNumber() { return false; }
    public boolean isInt() { return false; }
    public boolean isLong() { return false; }
    public boolean isShort() { return false; }
    public boolean isDouble() { return false; }
    public boolean isFloat() { return false; }
    public boolean isFloatingPointNumber() { return false; }
    public boolean isIntegralNumber() { return false; }
    public boolean isBigDecimal() { return false; }
    public boolean isBigInteger() { return false; }
    public boolean isArray() { return false; }
    public boolean isObject() { return false; }
    public boolean isNull() { return false; }
    public boolean isBinary() { return false; }
    public boolean isPojo() { return false; }
    public boolean isMissingNode() { return false; }
    public boolean isValueNode() { return false; }
    public boolean isContainerNode() { return false; }
    public boolean isEmpty() { return size() == 0; }
    public int size() { return 0; }
    public Iterator<JsonNode> elements() { return java.util.Collections.emptyIterator(); }
    public Iterator<String> fieldNames() { return java.util.Collections.emptyIterator(); }
    public Iterator<Map.Entry<String, JsonNode>> fields() { return java.util.Collections.emptyIterator(); }
    @Override public final Iterator<JsonNode> iterator() { return elements(); }
}
