// STUB written by /verif (C02)
package com.fasterxml.jackson.databind.annotation;
import com.fasterxml.jackson.databind.JsonSerializer;
import java.lang.annotation.*;
@Retention(RetentionPolicy.RUNTIME)
@Target({ElementType.ANNOTATION_TYPE, ElementType.METHOD, ElementType.FIELD, ElementType.TYPE, ElementType.PARAMETER})
public @interface JsonSerialize {
    @SuppressWarnings("rawtypes") Class<? extends JsonSerializer> using() default JsonSerializer.None.class;
    @SuppressWarnings("rawtypes") Class<? extends JsonSerializer> contentUsing() default JsonSerializer.None.class;
    Class<?> as() default Void.class;
}
