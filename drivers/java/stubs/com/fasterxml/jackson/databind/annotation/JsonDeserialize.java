// STUB written by /verif (C02)
package com.fasterxml.jackson.databind.annotation;
import com.fasterxml.jackson.databind.JsonDeserializer;
import java.lang.annotation.*;
@Retention(RetentionPolicy.RUNTIME)
@Target({ElementType.ANNOTATION_TYPE, ElementType.METHOD, ElementType.FIELD, ElementType.TYPE, ElementType.PARAMETER})
public @interface JsonDeserialize {
    @SuppressWarnings("rawtypes") Class<? extends JsonDeserializer> using() default JsonDeserializer.None.class;
    @SuppressWarnings("rawtypes") Class<? extends JsonDeserializer> contentUsing() default JsonDeserializer.None.class;
    Class<?> as() default Void.class;
    Class<?> contentAs() default Void.class;
    Class<?> builder() default Void.class;
}
