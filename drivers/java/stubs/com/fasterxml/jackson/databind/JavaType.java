// STUB written by /verif (C02)
package com.fasterxml.jackson.databind;
public abstract class JavaType { }
