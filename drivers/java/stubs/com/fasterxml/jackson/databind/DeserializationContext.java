// STUB written by /verif (C02)
package com.fasterxml.jackson.databind;
public abstract class DeserializationContext {
    public abstract <T> T readValue(com.fasterxml.jackson.core.JsonParser p, Class<T> type) throws java.io.IOException;
}
