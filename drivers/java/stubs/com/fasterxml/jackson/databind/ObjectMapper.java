// STUB written by /verif (C02)
package com.fasterxml.jackson.databind;
import com.fasterxml.jackson.core.JsonParser;
import com.fasterxml.jackson.core.JsonProcessingException;
import com.fasterxml.jackson.core.ObjectCodec;
import com.fasterxml.jackson.core.TreeNode;
import com.fasterxml.jackson.core.type.TypeReference;
import java.io.IOException;
public class ObjectMapper extends ObjectCodec {
    public ObjectMapper() { }
    public ObjectWriter writer() { return new ObjectWriter(); }
    public ObjectWriter writerWithDefaultPrettyPrinter() { return new ObjectWriter(); }
    public ObjectReader reader() { return new ObjectReader(); }
    public ObjectReader readerFor(Class<?> type) { return new ObjectReader(); }
    public ObjectReader readerFor(TypeReference<?> type) { return new ObjectReader(); }
    public String writeValueAsString(Object value) throws JsonProcessingException { return ""; }
    public byte[] writeValueAsBytes(Object value) throws JsonProcessingException { return new byte[0]; }
    @SuppressWarnings("unchecked")
    @Override public <T extends TreeNode> T readTree(JsonParser p) throws IOException { return null; }
    public JsonNode readTree(String content) throws JsonProcessingException { return null; }
    @Override public <T> T readValue(JsonParser p, Class<T> valueType) throws IOException { return null; }
    public <T> T readValue(String content, Class<T> valueType) throws JsonProcessingException { return null; }
    public <T> T readValue(String content, TypeReference<T> valueTypeRef) throws JsonProcessingException { return null; }
    public <T> T readValue(JsonParser p, TypeReference<T> valueTypeRef) throws IOException { return null; }
    @Override public <T> T treeToValue(TreeNode n, Class<T> valueType) throws JsonProcessingException { return null; }
    public <T extends JsonNode> T valueToTree(Object fromValue) throws IllegalArgumentException { return null; }
    public <T> T convertValue(Object fromValue, Class<T> toValueType) throws IllegalArgumentException { return null; }
    public <T> T convertValue(Object fromValue, TypeReference<T> toValueTypeRef) throws IllegalArgumentException { return null; }
    public <T> T convertValue(Object fromValue, JavaType toValueType) throws IllegalArgumentException { return null; }
    public ObjectMapper registerModule(Module module) { return this; }
    public ObjectMapper findAndRegisterModules() { return this; }
}
