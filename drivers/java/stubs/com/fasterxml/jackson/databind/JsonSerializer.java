// STUB written by /verif (C02)
package com.fasterxml.jackson.databind;
import com.fasterxml.jackson.core.JsonGenerator;
import java.io.IOException;
public abstract class JsonSerializer<T> {
    public abstract void serialize(T value, JsonGenerator gen, SerializerProvider serializers) throws IOException;
    public abstract static class None extends JsonSerializer<Object> { private None() { } }
}
