// STUB written by /verif (C02)
package com.fasterxml.jackson.databind;
import com.fasterxml.jackson.core.JsonParser;
import com.fasterxml.jackson.core.JsonProcessingException;
import java.io.IOException;
public abstract class JsonDeserializer<T> {
    public abstract T deserialize(JsonParser p, DeserializationContext ctxt) throws IOException, JsonProcessingException;
    public abstract static class None extends JsonDeserializer<Object> { private None() { } }
}
