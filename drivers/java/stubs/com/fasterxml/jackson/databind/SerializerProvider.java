// STUB written by /verif (C02)
package com.fasterxml.jackson.databind;
public abstract class SerializerProvider {
    public abstract void defaultSerializeValue(Object value, com.fasterxml.jackson.core.JsonGenerator gen) throws java.io.IOException;
}
