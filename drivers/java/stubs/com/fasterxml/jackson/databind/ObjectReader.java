// STUB written by /verif (C02)
package com.fasterxml.jackson.databind;
public class ObjectReader {
    public <T> T readValue(String content) throws java.io.IOException { return null; }
    public <T> T readValue(JsonNode content) throws java.io.IOException { return null; }
}
